"""PANIC engine: every panic site reachable from the decode / verify / batch entry points is
enumerated from MIR (Assert terminators and calls of panicking functions) and must be discharged.

Discharge evidence comes from the TERM interpreter's safety log (in-range proofs of the same
source expression under the recorded guard facts), from class rules, or from a small table of
invariants confirmed by hand that is keyed by function + the *term* (not the line) of the site.
"""
import re

from . import facts as FX

ENTRY = [
    "r1cs::proof::R1CSProof::<G>::from_bytes",
    "r1cs::verifier::Verifier::<G, T>::verify",
    "r1cs::verifier::Verifier::<G, T>::verify_and_return_transcript",
    "r1cs::verifier::Verifier::<G, T>::verification_scalars",
    "inner_product_proof::InnerProductProof::<G>::verification_scalars",
    "r1cs::verifier::batch_verify",
]

PANICKING_CALLS = [
    (re.compile(r"::unwrap$|::expect$|::unwrap_err$|::expect_err$"), "unwrap"),
    (re.compile(r"ops::Index::index$|ops::IndexMut::index_mut$"), "index"),
    (re.compile(r"copy_from_slice$|::split_at$|::split_at_mut$|clone_from_slice$"), "slice-op"),
    (re.compile(r"^(core|std)::panicking::|begin_panic|panic_fmt|assert_failed"), "panic"),
    (re.compile(r"(core|std)::num::<impl \w+>::next_power_of_two$"), "npow2"),
]


def parse_spx(s):
    """file:l1:c1-l2:c2 -> (file, (l1,c1), (l2,c2))"""
    if not s:
        return None
    m = re.match(r"^(.*):(\d+):(\d+)-(\d+):(\d+)$", s)
    if not m:
        return None
    return (m.group(1), (int(m.group(2)), int(m.group(3))), (int(m.group(4)), int(m.group(5))))


def contains(outer, inner):
    return outer and inner and outer[0] == inner[0] and outer[1] <= inner[1] and inner[2] <= outer[2]


def local_callees(F, path):
    out = []
    body = F.mir.get(path)
    if body is None:
        return out
    for b in body["blocks"]:
        t = b["term"]
        if t["k"] in ("Call", "TailCall"):
            f = t["func"]
            if f["k"] == "Fn":
                tgt = f.get("resolved") or f["path"]
                out.append((tgt, f, t))
    return out


def reach(F, entries):
    """crate-local functions (and closures nested in them) reachable from the entry points"""
    seen = []
    work = [F.resolve(e_) for e_ in entries]
    edges = {}
    while work:
        p = work.pop()
        if p in seen or p not in F.mir:
            continue
        seen.append(p)
        # closures defined inside p
        for q in F.mir:
            if q.startswith(p + "::{closure") and q not in seen:
                work.append(q)
                edges.setdefault(p, set()).add(q)
        for tgt, f, t in local_callees(F, p):
            if tgt in F.mir:
                work.append(tgt)
                edges.setdefault(p, set()).add(tgt)
            # `?` conversions: from_residual with differing error types uses a local From impl
            if f["path"].endswith("FromResidual::from_residual"):
                ga = f.get("gargs") or []
                if len(ga) >= 2:
                    m1 = re.search(r", ([\w:]+)>$", ga[0])
                    m2 = re.search(r", ([\w:]+)>$", ga[1])
                    if m1 and m2 and m1.group(1) != m2.group(1):
                        frm = f"<{m1.group(1)} as std::convert::From<{m2.group(1)}>>::from"
                        if frm in F.mir:
                            work.append(frm)
                            edges.setdefault(p, set()).add(frm)
    # local Iterator impls whose self type occurs among the locals of reachable bodies are driven
    # by std adaptors (take/zip/..) and are therefore reachable too
    changed = True
    while changed:
        changed = False
        for imp in F.items["impls"]:
            if (imp["trait"] or "").endswith("iter::Iterator"):
                adt = imp["self_ty"].split("<")[0]
                used = any(adt in l["ty"] for p in seen for l in F.mir[p]["locals"])
                if used:
                    for it in imp["items"]:
                        if it in F.mir and it not in seen:
                            seen.append(it)
                            changed = True
    return seen, edges


def sites_of(F, path):
    body = F.mir[path]
    out = []
    for bi, b in enumerate(body["blocks"]):
        if b.get("cleanup"):
            continue
        t = b["term"]
        if t["k"] == "Assert":
            m = t["msg"]
            kind = m["k"]
            if kind == "Overflow":
                kind = "overflow:" + m.get("op", "?")
            if kind == "Other" and m.get("dbg", "").startswith(("MisalignedPointerDereference", "NullPointerDereference")) and (t.get("expn") or "") in ("Bang:vec",):
                # debug-build pointer checks rustc inserts for the raw-pointer write inside std's own `vec![a, b]`
                # expansion (box allocation): not a source-level panic site of this crate
                continue
            out.append({"fn": path, "kind": kind, "spx": t.get("spx"), "sp": FX.short(t.get("sp")), "expn": t.get("expn"), "detail": ""})
        elif t["k"] in ("Call", "TailCall"):
            f = t["func"]
            if f["k"] != "Fn":
                continue
            cp = f.get("resolved") or f["path"]
            base = f["path"]
            for rx, kind in PANICKING_CALLS:
                if rx.search(base) or rx.search(cp):
                    out.append({"fn": path, "kind": kind, "callee": cp, "spx": t.get("spx"), "sp": FX.short(t.get("sp")), "expn": t.get("expn"), "detail": cp, "gargs": f.get("gargs")})
                    break
    return out


def err_variants_rule(F, reachable):
    """ERR_VARIANTS: ProofError variants constructed in reachable functions vs the variants
    handled (not sent to the panic arm) by From<ProofError> for R1CSError"""
    frm = "<errors::R1CSError as std::convert::From<errors::ProofError>>::from"
    fn = F.fns.get(frm)
    if fn is None:
        return None
    handled = set()
    has_panic_arm = False
    # which variants the conversion maps to a value (and which reach its panic) is decided by interpreting it once per
    # variant -- independent of how the match is spelled (wildcard arm, Option + unwrap_or_else, explicit lists)
    adt = F.adts.get("errors::ProofError")
    term_ok = adt is not None
    if term_ok:
        from . import harness as H_
        from .alg import Enum as Enum_, Opaque as Opaque_, Unanalysable as Unan_

        for var in adt["variants"]:
            payload = [Opaque_("error-payload") for _ in var["fields"]]
            try:
                H_.new_interp(F).call_fn(frm, [Enum_("errors::ProofError", var["name"], payload)])
                handled.add(var["name"])
            except Unan_ as u:
                if "reachable panic" in u.msg:
                    has_panic_arm = True
                else:
                    term_ok = False
                    break
            except Exception:
                term_ok = False
                break
    if not term_ok:
        handled = set()
        for n in FX.walk(fn["body"]):
            if n["k"] == "Match":
                for arm in n["arms"]:
                    p = arm["pat"]
                    if p["k"] in ("ExprPat", "StructPat", "TupleStructPat") and "res" in p:
                        handled.add(p["res"].get("path", "").split("::")[-1])
                    elif p["k"] == "Wild":
                        has_panic_arm = True
    constructed = {}
    for p in reachable:
        f = F.fns.get(p)
        if f is None:
            # closures: look inside the parent's HIR
            continue
        if "ProofError" not in f.get("ret_ty", "") and "ProofError" not in " ".join(pp["ty"] for pp in f["params"]):
            continue
        for n in FX.walk(f["body"]):
            path = None
            if n["k"] == "Path" and n["res"]["k"] == "Def":
                path = n["res"].get("path", "")
            elif n["k"] in ("Struct",) and n["res"].get("k") == "Def":
                path = n["res"].get("path", "")
            elif n["k"] == "Call":
                ci = FX.callee_info(n)
                if ci.get("dk", "").startswith("Ctor"):
                    path = ci.get("path", "")
            if path and "errors::ProofError::" in path:
                constructed.setdefault(path.split("::")[-1], []).append((p, FX.short(n.get("sp"))))
    return {"handled": handled, "constructed": constructed, "has_panic_arm": has_panic_arm, "fn": frm}

"""Reference protocol: the formulas the code is compared against, in the TERM term language.

Sources: Bulletproofs (Bunz et al. 2018) section 5.2 and appendix; dalek-cryptography
bulletproofs `notes::r1cs_proof` (two-phase extension, combined verification equation) and
`notes::inner_product_proof` (verification scalars s_i).  Each function cites the clause.
Atom names follow the extraction convention (rules/lib.py): challenge squeezed with label X
(k-th use) -> `ch[X]#k.d0`, on a cloned transcript -> `~clone`; proof fields -> `pf.<field>`.
"""
import sympy as sp

from .alg import Pt, Sc, Seg, Vec, canon_sums, isym, mk_sum, sfun, ssym

n1, n2, m = isym("n1"), isym("n2"), isym("m")
lg = isym("lg")


def pad_of(n):
    return sfun("pad")(sp.expand(n))


def chal(label, k=0, clone=False):
    name = f"ch[{label}]" + ("~clone" if clone else "")
    if k:
        name += f"#{k}"
    return ssym(name + ".d0")


X, Y, U, W = chal("x"), chal("y"), chal("u"), chal("w")
Z = chal("z")
R = chal("r", clone=True)


def Uj(j):
    """inner-product round challenge j (second use of label `u` on the main transcript)"""
    return sfun("ch[u]#1.d0")(j)


def pf(name):
    return ssym("pf." + name)


wL, wR, wO, wV, s_ = sfun("wL"), sfun("wR"), sfun("wO"), sfun("wV"), sfun("s")
wc = ssym("wc")
A, Bf = pf("a"), pf("b")


def delta(n):
    """delta(y,z) = < y^-n o wR , wL >   (dalek notes: r1cs_proof, `delta`)"""
    k = isym("_k")
    return mk_sum(n, wR(k) * wL(k) * Y ** (-k), k)


def rel_P(pad):
    """(c) inner-product opening relation as  sum scalar*base = 0.
    P = -e~ B~ + x A_I1 + x^2 A_O1 + x^3 S1 + u(x A_I2 + x^2 A_O2 + x^3 S2) - <1,H> ... folded with
    the inner-product verification scalars (notes::inner_product_proof, `s_i`, `1/s_i = s_{n-1-i}`)."""
    n = n1 + n2
    N = n + pad
    segs = []
    segs.append(("B", 1, lambda j: W * (pf("t_x") - A * Bf)))
    segs.append(("B_blinding", 1, lambda j: -pf("e_blinding")))
    segs.append(("G[0,n1)", n1, lambda j: X * Y ** (-j) * wR(j) - A * s_(j)))
    segs.append(("G[n1,n)", n2, lambda j: U * (X * Y ** (-(n1 + j)) * wR(n1 + j) - A * s_(n1 + j))))
    segs.append(("G[n,N)", pad, lambda j: U * (-A * s_(n + j))))
    segs.append(("H[0,n1)", n1, lambda j: Y ** (-j) * (X * wL(j) + wO(j) - Bf * s_(N - 1 - j)) - 1))
    segs.append(("H[n1,n)", n2, lambda j: U * (Y ** (-(n1 + j)) * (X * wL(n1 + j) + wO(n1 + j) - Bf * s_(N - 1 - n1 - j)) - 1)))
    segs.append(("H[n,N)", pad, lambda j: U * (Y ** (-(n + j)) * (-Bf * s_(N - 1 - n - j)) - 1)))
    for name, e in (("A_I1", X), ("A_O1", X**2), ("S1", X**3), ("A_I2", U * X), ("A_O2", U * X**2), ("S2", U * X**3)):
        segs.append((name, 1, lambda j, e=e: e))
    segs.append(("V", m, lambda j: sp.Integer(0)))
    for name in ("T_1", "T_3", "T_4", "T_5", "T_6"):
        segs.append((name, 1, lambda j: sp.Integer(0)))
    segs.append(("L", lg, lambda j: Uj(j) ** 2))
    segs.append(("R", lg, lambda j: Uj(j) ** (-2)))
    return segs


def rel_T(pad):
    """(b) evaluation relation  x^2(wc+delta) B + x^2 sum wV_j V_j + sum x^k T_k - t_x B - t~ B~ = 0
    (Bulletproofs eq. (for t_2), dalek notes r1cs_proof `t(x)` check)."""
    n = n1 + n2
    segs = []
    segs.append(("B", 1, lambda j: X**2 * (wc + delta(n)) - pf("t_x")))
    segs.append(("B_blinding", 1, lambda j: -pf("t_x_blinding")))
    for name, ln in (("G[0,n1)", n1), ("G[n1,n)", n2), ("G[n,N)", pad), ("H[0,n1)", n1), ("H[n1,n)", n2), ("H[n,N)", pad)):
        segs.append((name, ln, lambda j: sp.Integer(0)))
    for name in ("A_I1", "A_O1", "S1", "A_I2", "A_O2", "S2"):
        segs.append((name, 1, lambda j: sp.Integer(0)))
    segs.append(("V", m, lambda j: wV(j) * X**2))
    for name, k in (("T_1", 1), ("T_3", 3), ("T_4", 4), ("T_5", 5), ("T_6", 6)):
        segs.append((name, 1, lambda j, k=k: X**k))
    segs.append(("L", lg, lambda j: sp.Integer(0)))
    segs.append(("R", lg, lambda j: sp.Integer(0)))
    return segs


def combined(pad):
    """combined check = (c) + r * (b), one scalar per base"""
    P, T = rel_P(pad), rel_T(pad)
    out = []
    for (name, ln, fp), (name2, ln2, ft) in zip(P, T):
        assert name == name2
        out.append((name, ln, lambda j, fp=fp, ft=ft: fp(j) + R * ft(j)))
    return out


def base_layout(pad):
    """bases of the combined check in order (verifier.rs comment block above verification_scalars)"""
    n = n1 + n2
    G, Hh, V, L, Rr = sfun("G"), sfun("H"), sfun("V"), sfun("pf.L"), sfun("pf.R")
    segs = [("B", 1, lambda j: ssym("B")), ("B_blinding", 1, lambda j: ssym("Bb"))]
    segs.append(("G[0,n1)", n1, lambda j: G(j)))
    segs.append(("G[n1,n)", n2, lambda j: G(n1 + j)))
    segs.append(("G[n,N)", pad, lambda j: G(n + j)))
    segs.append(("H[0,n1)", n1, lambda j: Hh(j)))
    segs.append(("H[n1,n)", n2, lambda j: Hh(n1 + j)))
    segs.append(("H[n,N)", pad, lambda j: Hh(n + j)))
    for name in ("A_I1", "A_O1", "S1", "A_I2", "A_O2", "S2"):
        segs.append((name, 1, lambda j, name=name: pf(name)))
    segs.append(("V", m, lambda j: V(j)))
    for name in ("T_1", "T_3", "T_4", "T_5", "T_6"):
        segs.append((name, 1, lambda j, name=name: pf(name)))
    segs.append(("L", lg, lambda j: L(j)))
    segs.append(("R", lg, lambda j: Rr(j)))
    return segs

"""Verdict plumbing: obligations, violations, evidence files, known findings."""
import json
import os
import re
import time

VERIF = os.path.dirname(os.path.dirname(os.path.abspath(__file__)))
EVID = os.environ.get("BPV_EVID") or os.path.join(VERIF, "evidence")
KNOWN = os.path.join(VERIF, "known_findings.json")


class Check:
    """One run of one property's rules."""

    def __init__(self, pid, tier, level="other"):
        self.pid = pid
        self.tier = tier
        self.level = level
        self.t0 = time.time()
        self.obligations = []  # (rule, instance, ok, nontrivial, detail)
        self.violations = []  # dict(rule, key, msg, where)
        self.samples = []
        self.functions = set()
        self.not_decided = []
        self.assumptions = []
        self.rule_text = []
        self.explanation = ""
        self.extra = {}
        self.floors = []  # (name, measured, floor)
        self.configs = []

    # -- recording ---------------------------------------------------------
    @staticmethod
    def _norm(instance):
        # fresh-symbol counters are run-dependent: never part of an instance key
        return re.sub(r"#\d+", "", str(instance))

    def ok(self, rule, instance, detail="", nontrivial=True):
        instance = self._norm(instance)
        self.obligations.append((rule, instance, True, nontrivial, detail))

    def fail(self, rule, instance, msg, where="", kind="violation"):
        """A rule instance that does not hold. key = (rule, instance) -- never a line number."""
        instance = self._norm(instance)
        self.obligations.append((rule, instance, False, True, msg))
        self.violations.append(
            {"rule": rule, "instance": instance, "key": f"{self.pid}:{rule}:{instance}", "msg": msg, "where": where, "kind": kind}
        )

    def require(self, cond, rule, instance, msg, where="", detail="", nontrivial=True, kind_hint="violation"):
        if cond:
            self.ok(rule, instance, detail, nontrivial)
        else:
            self.fail(rule, instance, msg, where, kind=kind_hint)
        return bool(cond)

    def floor(self, name, measured, floor):
        """Vacuity guard: fewer instances than counted by hand on the pinned tree is a failure."""
        self.floors.append((name, measured, floor))
        if measured < floor:
            self.fail("FLOOR", name, f"only {measured} instances of '{name}' found, floor is {floor}: rule would pass vacuously", kind="below-floor")

    def sample(self, s):
        if len(self.samples) < 40:
            self.samples.append(s)

    def fn(self, path):
        self.functions.add(path)

    # -- finishing ---------------------------------------------------------
    def finish(self):
        os.makedirs(EVID, exist_ok=True)
        os.makedirs(os.path.join(EVID, "violations"), exist_ok=True)
        # replay files of earlier runs of this property are stale once it is re-run
        for old in os.listdir(os.path.join(EVID, "violations")):
            if old.startswith(self.pid + "_"):
                os.remove(os.path.join(EVID, "violations", old))
        known = {"open": {}, "fixed": {}}
        if os.path.exists(KNOWN):
            with open(KNOWN) as f:
                for e in json.load(f).get("findings", []):
                    known["open" if e.get("status") == "open" else "fixed"][e["key"]] = e
        lines = []
        real = []
        for v in self.violations:
            if v["key"] in known["open"]:
                lines.append(f"KNOWN-FINDING: property={self.pid} {v['key']} {known['open'][v['key']].get('what', v['msg'])}")
            else:
                real.append(v)
        for v in real:
            fname = re.sub(r"[^A-Za-z0-9_.-]+", "_", v["key"])[:150] + ".json"
            path = os.path.join(EVID, "violations", fname)
            with open(path, "w") as f:
                json.dump({"property": self.pid, **v}, f, indent=1)
            lines.append(f"VIOLATION property={self.pid} replay={path}")
            lines.append(f"  rule={v['rule']} instance={v['instance']} kind={v['kind']}")
            lines.append(f"  {v['msg']}")
            if v["where"]:
                lines.append(f"  at {v['where']}")
        n_ob = len(self.obligations)
        n_ok = sum(1 for o in self.obligations if o[2])
        distinct_nontrivial = len({(o[0], o[1]) for o in self.obligations if o[3]})
        cov = {
            "obligations": n_ob,
            "discharged": n_ok,
            "evaluations": max(n_ob, 1),
            "distinct_nontrivial": distinct_nontrivial,
            "rule": " | ".join(self.rule_text) or "one obligation per rule instance found in the extracted program",
            "samples": self.samples or [f"{o[0]}:{o[1]}" for o in self.obligations[:10]],
            "explanation": self.explanation,
            "functions_analysed": sorted(self.functions),
            "not_decided": self.not_decided,
            "floors": [{"name": n, "measured": m, "floor": f} for n, m, f in self.floors],
            "configs": self.configs,
            "obligation_list": [
                {"rule": o[0], "instance": o[1], "ok": o[2], "detail": o[4][:300]} for o in self.obligations[:400]
            ],
            "exhaustive": True,
        }
        cov.update(self.extra)
        ev = {
            "property_id": self.pid,
            "tier": self.tier,
            "seed": int(os.environ.get("VERIF_SEED", "0") or 0),
            "level": self.level,
            "coverage": cov,
            "assumptions": self.assumptions,
            "wall_s": round(time.time() - self.t0, 3),
            "violations": len(real),
        }
        with open(os.path.join(EVID, self.pid + ".json"), "w") as f:
            json.dump(ev, f, indent=1)
        for l in lines:
            print(l)
        print(
            f"[{self.pid}] tier={self.tier} obligations={n_ob} discharged={n_ok} violations={len(real)} "
            f"known={len(self.violations) - len(real)} wall={ev['wall_s']}s"
        )
        return 1 if real else 0

"""Engine cross-check (R06.8): the (method, label) sequence of transcript operations of a function, derived
independently from MIR (reverse post-order of the CFG) and from the HIR tree (source order)."""
import re

from . import facts as FX

TRANSCRIPT_FNS = ("transcript::TranscriptProtocol::", "merlin::Transcript::", "merlin::TranscriptRngBuilder::")


def rpo(body):
    blocks = body["blocks"]
    seen, order = set(), []

    def succ(t):
        out = []
        k = t["k"]
        if k == "Goto":
            out.append(t["target"])
        elif k == "SwitchInt":
            out += [x[1] for x in t["targets"]] + [t["otherwise"]]
        elif k in ("Call", "Assert", "Drop"):
            if t.get("target") is not None:
                out.append(t["target"])
        return out

    stack = [(0, iter(succ(blocks[0]["term"])))]
    seen.add(0)
    post = []
    while stack:
        b, it = stack[-1]
        nxt = next(it, None)
        if nxt is None:
            post.append(b)
            stack.pop()
        elif nxt not in seen and not blocks[nxt].get("cleanup"):
            seen.add(nxt)
            stack.append((nxt, iter(succ(blocks[nxt]["term"]))))
    return list(reversed(post))


def mir_schedule(F, path):
    body = F.mir.get(F.resolve(path))
    if body is None:
        raise FX.AnchorMissing(path)
    ops = []
    lit = {}  # local -> byte-string literal it (transitively) holds: Use const, Ref, unsizing Cast, Copy/Move
    for bi in rpo(body):
        blk = body["blocks"][bi]
        for st in blk["stmts"]:
            rv = st.get("rv") or {}
            dst = (st.get("place") or {}).get("l")
            if dst is None or (st.get("place") or {}).get("p"):
                continue
            src = None
            if rv.get("k") == "Use":
                op = rv.get("op") or {}
                s_ = op.get("s") or ""
                m = re.match(r'^(?:const )?b"((?:[^"\\]|\\.)*)"$', s_)
                if m:
                    lit[dst] = m.group(1)
                    continue
                src = (op.get("place") or {}).get("l")
            elif rv.get("k") == "Ref":
                src = (rv.get("place") or {}).get("l")
            elif rv.get("k") == "Cast":
                src = ((rv.get("op") or {}).get("place") or {}).get("l")
            if src is not None and src in lit:
                lit[dst] = lit[src]
            else:
                lit.pop(dst, None)
        t = blk["term"]
        if t["k"] == "Call" and t["func"]["k"] == "Fn":
            p = t["func"]["path"]
            if any(x in p for x in TRANSCRIPT_FNS):
                name = p.split("::")[-1]
                if name in ("clone", "build_rng", "finalize"):
                    ops.append((name, None))
                    continue
                labels = []
                for a_ in t.get("args", []):
                    l_ = (a_.get("place") or {}).get("l")
                    if l_ in lit:
                        labels.append(lit[l_])
                    elif a_.get("k") == "Const":
                        m = re.match(r'^(?:const )?b"((?:[^"\\]|\\.)*)"$', a_.get("s") or "")
                        if m:
                            labels.append(m.group(1))
                ops.append((name, tuple(labels)))
    return ops


def hir_schedule(F, path):
    fn = F.fn(path)
    ops = []

    def walk_no_closures(node):
        # closures are separate MIR bodies: the per-function comparison leaves their contents out on both sides
        stack = [node]
        while stack:
            n_ = stack.pop()
            if isinstance(n_, dict) and "k" in n_:
                yield n_
                if n_["k"] == "Closure":
                    continue
            stack.extend(reversed(list(FX.children(n_))))

    for n in walk_no_closures(fn["body"]):
        if n["k"] not in ("Call", "MethodCall"):
            continue
        ci = FX.callee_info(n)
        p = ci.get("path") or ""
        if not any(x in p for x in TRANSCRIPT_FNS):
            continue
        name = p.split("::")[-1]
        if name in ("clone", "build_rng", "finalize"):
            ops.append((name, None))
            continue
        labels = []
        for a in FX.call_args(n):
            b = FX.lit_bytes(a)
            if b is not None and FX.strip(a).get("lk") == "ByteStr":
                labels.append(b.decode(errors="replace"))
        ops.append((name, tuple(labels)))
    return ops

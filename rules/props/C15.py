"""C15 -- linear-combination arithmetic preserves meaning (denotation on term lists)."""
import sympy as sp

from .. import facts as FX
from .. import flatten
from .. import harness as H
from ..alg import Enum, IntV, Opaque, Pt, Sc, Seg, Struct, Tup, Unanalysable, Vec, eq, isym, pt_eq, sfun, show, ssym
from . import C16
from .common import run_configs

LEVEL = "other"
LC = "r1cs::linear_combination::LinearCombination<F>"
VAR = "r1cs::linear_combination::Variable<F>"
ONE = sp.Symbol("[One]")


def var_atom(e):
    return Opaque("var", sym=sp.sympify(e))


def lc_atom(name):
    """a linear combination with a symbolic term list"""
    t = isym("len_" + name)
    vf, cf = sfun("var_" + name), sfun("c_" + name)
    return Struct("r1cs::linear_combination::LinearCombination", {"terms": Vec([Seg(t, lambda j: Tup([var_atom(vf(j)), Sc(cf(j))]))])})


def base_of(v):
    if isinstance(v, Opaque) and v.what == "var":
        return v.info["sym"]
    if isinstance(v, Enum) and v.variant == "One":
        return ONE
    raise Unanalysable(f"not a variable value: {v!r}")


def den(lc):
    """denotation: formal sum  sum coeff * [var]  of the term list"""
    if not (isinstance(lc, Struct) and "terms" in lc.fields and isinstance(lc.fields["terms"], Vec)):
        raise Unanalysable(f"not a linear combination: {lc!r}")
    terms = []
    for sg in lc.fields["terms"].nonempty_segs():
        terms.append((sg.n, (lambda j, sg=sg: base_of(sg.f(j).items[0])), (lambda j, sg=sg: sg.f(j).items[1].e)))
    return Pt(terms)


def den_atom(name):
    return den(lc_atom(name))


def single(base, coeff):
    return Pt([(sp.Integer(1), lambda j: base, lambda j: coeff)])


def body(ck, F, cfg, parts=("ops", "eval", "flatten")):
    if "ops" in parts:
        operator_rules(ck, F)
    if "eval" in parts:
        eval_rules(ck, F)
    if "flatten" in parts:
        # R15.3 flattening consumes all terms (shared with C01/C02)
        flatten.check(ck, F, "prover", "R15.3")
        flatten.check(ck, F, "verifier", "R15.3")
    if "eval" in parts:
        ck.floor("eval arms", len([o for o in ck.obligations if o[1].startswith("eval:")]), 7)


def operator_rules(ck, F):
    impls = {
        "From<Variable>": f"<{LC} as std::convert::From<{VAR}>>::from",
        "From<F>": f"<{LC} as std::convert::From<F>>::from",
        "Default": f"<{LC} as std::default::Default>::default",
        "FromIterator<(Variable,F)>": f"<{LC} as std::iter::FromIterator<({VAR}, F)>>::from_iter",
        "FromIterator<&(Variable,F)>": f"<{LC} as std::iter::FromIterator<&'a ({VAR}, F)>>::from_iter",
        "LC+L": f"<{LC} as std::ops::Add<L>>::add",
        "LC-L": f"<{LC} as std::ops::Sub<L>>::sub",
        "-LC": f"<{LC} as std::ops::Neg>::neg",
        "LC*S": f"<{LC} as std::ops::Mul<S>>::mul",
        "-Variable": f"<{VAR} as std::ops::Neg>::neg",
        "Variable+L": f"<{VAR} as std::ops::Add<L>>::add",
        "Variable-L": f"<{VAR} as std::ops::Sub<L>>::sub",
        "Variable*S": f"<{VAR} as std::ops::Mul<S>>::mul",
    }
    v = sp.Symbol("[v]")
    s = ssym("s")
    A, Bd = den_atom("a"), den_atom("b")
    want = {
        "From<Variable>": ([var_atom(v)], single(v, 1)),
        "From<F>": ([Sc(s)], single(ONE, s)),
        "Default": ([], Pt([])),
        "FromIterator<(Variable,F)>": ([lc_atom("a").fields["terms"]], A),
        "FromIterator<&(Variable,F)>": ([lc_atom("a").fields["terms"]], A),
        "LC+L": ([lc_atom("a"), lc_atom("b")], A.add(Bd)),
        "LC-L": ([lc_atom("a"), lc_atom("b")], A.add(Bd.neg())),
        "-LC": ([lc_atom("a")], A.neg()),
        "LC*S": ([lc_atom("a"), Sc(s)], A.scale(s)),
        "-Variable": ([var_atom(v)], single(v, -1)),
        "Variable+L": ([var_atom(v), lc_atom("b")], single(v, 1).add(Bd)),
        "Variable-L": ([var_atom(v), lc_atom("b")], single(v, 1).add(Bd.neg())),
        "Variable*S": ([var_atom(v), Sc(s)], single(v, s)),
    }
    n_ok = 0
    for name, path in impls.items():
        try:
            fn = F.fn(path)
        except FX.AnchorMissing:
            ck.fail("R15.1", f"impl:{name}", f"operator impl {path} not found", kind="anchor-missing")
            continue
        ck.fn(path)
        args, ref = want[name]
        I = H.new_interp(F)
        try:
            got = I.call_fn(path, args)
            d = den(got)
            ok = pt_eq(d, ref)
            ck.require(ok, "R15.1", f"impl:{name}", f"denotation of {name} is {d!r}; reference {ref!r}", FX.short(fn["sp"]), detail=repr(ref)[:160])
            n_ok += 1
        except Unanalysable as u:
            ck.fail("R15.1", f"impl:{name}", f"unanalysable: {u.msg}", u.where or FX.short(fn["sp"]), kind="unanalysable")
    ck.floor("operator impls", n_ok, 13)
    # every Add/Sub/Neg/Mul/From/FromIterator impl on the two types is in the table (a new impl is reported)
    have = set()
    for i in F.items["impls"]:
        st = i["self_ty"]
        tr = i["trait"] or ""
        if st.startswith(("r1cs::linear_combination::LinearCombination", "r1cs::linear_combination::Variable")) and tr.split("::")[-1] in ("Add", "Sub", "Neg", "Mul", "From", "FromIterator", "Default", "AddAssign", "SubAssign", "MulAssign", "Sum"):
            if i["expn"] is None:
                have.update(i["items"])
    extra = sorted(p for p in have if p not in impls.values() and not p.endswith("::Output"))
    ck.require(not extra, "R15.1", "no-unlisted-operators", f"operator impls without a reference denotation: {extra}")


def eval_rules(ck, F):
    # R15.2 evaluation on the prover
    ev_path, ev_recv = H.eval_site(F)
    fn = F.fn(ev_path)
    ck.fn(ev_path)
    i_ = isym("i")
    st = C16.state("prover", None)
    if ev_recv == "secrets":
        st = st.fields["secrets"]
    cf = ssym("cf")
    vals = {
        "MultiplierLeft": sfun("aL")(i_), "MultiplierRight": sfun("aR")(i_), "MultiplierOutput": sfun("aO")(i_), "Committed": sfun("v")(i_), "One": sp.Integer(1), "Phantom": sp.Integer(0),
    }
    for vname, ftys in flatten.variants_from_items(F):
        payload = [IntV(i_)] if ftys and ftys[0] == "usize" else ([Opaque("phantom")] if ftys else [])
        var = Enum("r1cs::linear_combination::Variable", vname, payload)
        lc = Struct("r1cs::linear_combination::LinearCombination", {"terms": Vec.lit([Tup([var, Sc(cf)])])})
        I = H.new_interp(F)
        try:
            got = I.call_fn(ev_path, [st, lc])
            ok = isinstance(got, Sc) and vname in vals and eq(got.e, cf * vals[vname])
            ck.require(ok, "R15.2", f"eval:{vname}", f"eval of cf*{vname}(i) is {got!r}; reference {cf * vals.get(vname, 0)}", FX.short(fn["sp"]))
        except Unanalysable as u:
            ck.fail("R15.2", f"eval:{vname}", f"unanalysable: {u.msg}", u.where, kind="unanalysable")
    # linearity over a symbolic term list
    t = isym("t")
    lc = Struct("r1cs::linear_combination::LinearCombination", {"terms": Vec([Seg(t, lambda j: Tup([Enum("r1cs::linear_combination::Variable", "MultiplierLeft", [IntV(sfun("ix")(j))]), Sc(sfun("cc")(j))]))])})
    I = H.new_interp(F)
    got = I.call_fn(ev_path, [st, lc])
    from ..alg import mk_sum

    k = isym("_k")
    ck.require(isinstance(got, Sc) and eq(got.e, mk_sum(t, sfun("cc")(k) * sfun("aL")(sfun("ix")(k)), k)), "R15.2", "eval:sum-over-all-terms", f"eval must sum coeff*value over all terms; got {got!r}", FX.short(fn["sp"]))
    # multiply stores eval(left), eval(right), product
    R = C16.run_method(F, "prover", "multiply", None)
    sec = R["state"].fields["secrets"].fields
    c = C16.c
    okm = eq(sec["a_L"].index(c).e, ssym("EVAL_left")) and eq(sec["a_R"].index(c).e, ssym("EVAL_right")) and eq(sec["a_O"].index(c).e, ssym("EVAL_left") * ssym("EVAL_right"))
    ck.require(okm, "R15.2", "multiply:assignments", "multiply must assign l=eval(left), r=eval(right), o=l*r to the new gate")
    cons = R["state"].fields["constraints"]
    q = C16.q
    for pos, nm, var in ((q, "left", "MultiplierLeft"), (q + 1, "right", "MultiplierRight")):
        lcx = cons.index(pos)
        okc = False
        if isinstance(lcx, Struct):
            tv = lcx.fields["terms"]
            ln = isym("len_" + nm)
            last = tv.index(ln) if eq(tv.length(), ln + 1) else None
            okc = isinstance(last, Tup) and isinstance(last.items[0], Enum) and last.items[0].variant == var and eq(last.items[0].payload[0].e, c) and eq(last.items[1].e, -1)
        ck.require(okc, "R15.2", f"multiply:constrains-{nm}", f"multiply must constrain {nm} - {var}(new gate) = 0")


def run(tier):
    ck = run_configs(
        "C15", tier, LEVEL, body,
        explanation="TERM: each of the 13 operator/conversion impls on Variable/LinearCombination is interpreted on symbolic operands (term lists of symbolic length) and its result's "
        "denotation sum coeff*[var] -- a formal sum, insensitive to term order and grouping -- is compared with the reference denotation. Prover::eval is checked per Variable variant "
        "(from the type definition) and for linearity; multiply's assignments and wire constraints and both flattenings (all terms of all constraints consumed) complete the chain from "
        "expression to constraint weight.",
        rule_text="R15.1 denotation per impl (formal-sum equality); R15.2 eval per variant, linearity, multiply; R15.3 flatten consumes all terms",
        not_decided=["'provable precisely when' (follows from C01 completeness + C02 soundness)"],
        assumptions=[],
    )
    return ck.finish()


CLAIM = {
    "engine": "TERM",
    "level": "other",
    "design_ref": "DESIGN.md section 4 C15",
    "technique": "static: abstract interpretation of operator impls into formal sums over variable atoms; denotational comparison",
    "text": "For all expression trees: every operator's result denotes the reference combination of its operands' denotations (structural induction over the tree); "
    "evaluation and flattening read the right wire per variant and consume every term.",
    "note": "trusted: TERM engine; induction over expression trees is elementary",
}

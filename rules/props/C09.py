"""C09 -- hiding as nonce discipline (dataflow), not as a distributional claim."""
from .. import harness as H
from .. import prover_ref as PR
from .common import run_configs

LEVEL = "other"


def body(ck, F, cfg):
    pv = PR.check_commitments(ck, F, rule="R09.3")
    ck.fn(H.P_PRV + "prove_and_return_transcript")
    PR.check_t(ck, F, pv, rule="R09.4")
    PR.check_rng(ck, F, pv)
    PR.check_nonces(ck, F, pv)
    PR.check_determinism(ck, F, pv)
    from .common import hidden_effects_rule

    hidden_effects_rule(ck, F, "R09.6")  # no draw hidden in drop glue / clone / == / deref (see C06 R06.8)
    ck.sample({"nonces": {k: str(v) for k, v in pv.nz.items() if not callable(v) and k != "taus"}, "taus": {k: str(v) for k, v in (pv.nz.get("taus") or {}).items()}})
    ck.floor("blinding-base terms", len([o for o in ck.obligations if o[1].startswith("fresh:")]), 11)
    ck.floor("masking vectors", len([o for o in ck.obligations if o[1].startswith("fresh-vector:")]), 4)


def run(tier):
    ck = run_configs(
        "C09", tier, LEVEL, body,
        explanation="TERM dataflow: the RNG value every nonce is drawn from is traced to Merlin's TranscriptRng built from the system's transcript after "
        "`m`, rekeyed once per commitment blinding factor (full encoding, label v_blinding) and finalized with the caller's RNG. The coefficient of the "
        "blinding base in every witness-bearing commitment and every T_k is read off the extracted normal forms and must be exactly one fresh scalar draw; "
        "the eleven scalars are pairwise distinct draws, the four masking vectors are per-index draws, no draw reaches a sink outside its role, and the "
        "published blinding scalars are the reference combinations of those nonces.",
        rule_text="R09.1 RNG construction; R09.2 fresh and distinct draws; R09.3 commitment slots; R09.4 published blinding scalars; R09.5 closed inputs",
        not_decided=["independence/uniformity of TranscriptRng and UniformRand outputs (cryptographic, trusted)", "the statistical claim 'share no component'"],
        assumptions=["Merlin TranscriptRng", "arkworks UniformRand"],
    )
    return ck.finish()


CLAIM = {
    "engine": "TERM",
    "level": "other",
    "design_ref": "DESIGN.md section 4 C09",
    "technique": "static: def-use/dataflow of RNG draws through symbolic sink terms (nonce-discipline checker)",
    "text": "Decides that every commitment carries its own fresh draw on the blinding base, that draws are distinct and confined to their protocol slots, and that the "
    "RNG is keyed by transcript, commitment blindings and the caller's randomness. A forgotten, reused or zeroed nonce, or an RNG built without the external randomness, changes a term or the RNG provenance.",
    "note": "trusted: Merlin TranscriptRng and UniformRand produce independent uniform values",
}

"""C02 -- soundness against invalid witnesses: the verifier enforces the full reference equation."""
import sympy as sp

from .. import analyses as AN
from .. import facts as FX
from .. import flatten
from .. import spec_ref as REF
from ..alg import Cond, Enum, Pt, isym
from ..compare import compare_scalars
from .common import run_configs

LEVEL = "other"


def verdict_rule(ck, F, rule):
    """R02.3: Ok is returned only on the false edge of !is_zero(msm(bases, scalars))"""
    V = AN.verify_full(F)
    I = V["I"]
    ck.fn(AN.H.P_VER + "verify_and_return_transcript")
    msms = list(I.msm_log)  # the run interprets verify_and_return_transcript only: its whole dynamic extent counts (the check may live in a helper)
    ck.require(len(msms) == 1, rule, "single-msm", f"expected one combined multiscalar check in verify, found {len(msms)}")
    guards, final = AN.exit_chain(I, V["ret"], lambda f: f.endswith("verify_and_return_transcript"))
    last = guards[-1] if guards else None
    ok = False
    why = "no guard on the multiscalar result"
    if last is not None:
        c = last[0]
        subj = getattr(c, "subject", None)
        errv = last[1]
        ok = isinstance(c, Cond) and c.op == "iszero" and c.neg and isinstance(subj, Pt) and isinstance(errv, Enum) and errv.variant == "Err" and "VerificationError" in repr(errv.payload)
        why = f"guard is {c} -> {errv!r}"
        if ok and msms:
            # the tested point is the msm result of the logged call
            from ..alg import pt_eq
            from ..lib import pt_terms_of_segment
            ok = len(subj.terms) > 0
    ck.require(ok, rule, "verdict", f"verify must return Err(VerificationError) exactly when the combined point is not the identity; {why}", last[2] if last else "")
    ret = final
    ck.require(isinstance(ret, Enum) and ret.variant == "Ok", rule, "accept-path", f"value on the accepting path is {ret!r}")
    return V


def body(ck, F, cfg):
    # structural rules first (they do not depend on the symbolic run of the whole verifier)
    flatten.check(ck, F, "verifier", "R02.2")
    from . import C16

    C16.constrain_rules(ck, F, "R02.2")
    C16.callbacks_rule(ck, F, "R02.2")
    C16.multiply_constraint_rules(ck, F, "R02.2")
    A = AN.verifier_scalars(F)
    I = A["I"]
    ck.fn(AN.H.P_VER + "verification_scalars")
    ck.fn(AN.H.P_IPP + "verification_scalars")
    pad = REF.pad_of(REF.n1 + REF.n2)
    ref = REF.combined(pad)
    compare_scalars(ck, "R02.1", A["scalars"], ref, I.bounds, proportional=True, where="src/r1cs/verifier.rs (ret.1 of Verifier::verification_scalars)")
    ck.sample({"sink": "ret.1 of verification_scalars", "segment B": str(A["scalars"].index(sp.Integer(0), I.bounds).e)})
    ck.sample({"sink": "H[0,n1)", "value": str(sp.expand(A["scalars"].index(2 + pad + REF.n1 + REF.n2 + isym("_j"), I.bounds.with_ub(isym("_j"), REF.n1)).e))})
    fl = I.flatten_calls
    ck.require(len(fl) == 1 and str(fl[0]["z"].e) == str(REF.Z), "R02.2", "flatten-uses-z", f"flattening must be called once with the challenge z; calls: {[(str(c['z']),) for c in fl]}")
    verdict_rule(ck, F, "R02.3")
    ck.floor("combined-check segments", len([o for o in ck.obligations if o[0] == "R02.1" and o[2]]), 22)


def run(tier):
    ck = run_configs(
        "C02", tier, LEVEL, body,
        explanation="TERM: the scalar vector returned by Verifier::verification_scalars is extracted as normal forms over "
        "challenge/proof/weight atoms (abstract interpretation of the HIR, one generic iteration per loop) and compared segment by "
        "segment, up to one common factor, with the reference combined equation (c)+r*(b). A term dropped from any scalar (wc, delta, "
        "the -1 gate term, a phase factor, the r weighting) changes a normal form and is reported with the base segment it belongs to. "
        "The verifier's flattening twin is summarised per Variable variant and must contain the constant arm.",
        rule_text="R02.1 normal-form equality per base segment (cross-multiplied with segment B); R02.2 flatten summary incl. One arm; R02.3 verdict sink",
        not_decided=["soundness theorem of the reference equation (Bulletproofs, trusted)", "negligible-probability cancellation"],
        assumptions=["arkworks field/group operations implement the ring/group axioms", "reference formulas in rules/spec_ref.py are the protocol's (reviewed against dalek notes)"],
    )
    return ck.finish()


CLAIM = {
    "engine": "TERM",
    "level": "other",
    "design_ref": "DESIGN.md section 4 C02, section 3.2",
    "technique": "static: abstract interpretation of HIR into symbolic terms; normal-form comparison of the verifier's combined-check scalars with reference formulas",
    "text": "Decides that every base of the combined check carries the reference scalar for all inputs (a statement about expressions, not values): "
    "no constraint class (constants, gate consistency, second-phase factors, t(x) coefficient) can be unenforced. Soundness of the reference equation itself is the paper's theorem.",
    "note": "trusted: Bulletproofs soundness theorem; arkworks algebra; the reference table in rules/spec_ref.py",
}

"""helpers shared by the property modules"""
from .. import facts as FX
from ..alg import Unanalysable
from ..report import Check


def configs_for(tier):
    return ["default"] if tier == "quick" else ["default", "nostd", "parallel"]


def run_configs(pid, tier, level, body, explanation, rule_text, not_decided=(), assumptions=()):
    """run `body(ck, F, cfg)` for every configuration of the tier; unanalysable -> violation"""
    ck = Check(pid, tier, level=level)
    ck.explanation = explanation
    ck.rule_text.append(rule_text)
    ck.not_decided = list(not_decided)
    ck.assumptions = list(assumptions)
    sigs = []
    for cfg in configs_for(tier):
        F = FX.load(cfg)
        ck.configs.append(cfg)
        before = len(ck.obligations)
        try:
            body(ck, F, cfg)
        except Unanalysable as u:
            ck.fail("TERM", f"{cfg}:unanalysable", f"construct outside the recognised fragment: {u.msg}", u.where, kind="unanalysable")
        except FX.AnchorMissing:
            raise
        except FX.ExtractError:
            raise
        except Exception as ex:  # engine limitation on an unexpected program shape: fail closed, readable
            import traceback

            tb = traceback.format_exc().strip().splitlines()
            ck.fail("TERM", f"{cfg}:engine", f"analysis could not process the program ({type(ex).__name__}: {ex}); {tb[-3].strip() if len(tb) > 2 else ''}", kind="unanalysable")
        sigs.append([(o[0], o[1], o[2]) for o in ck.obligations[before:] if o[0] != "WITNESS"])
    if len(sigs) > 1 and any(s != sigs[0] for s in sigs[1:]):
        diffs = []
        for cfg_, s in zip(ck.configs[1:], sigs[1:]):
            a, b = set(sigs[0]), set(s)
            diffs.append(f"{cfg_}: only-default={sorted(a - b)[:3]} only-{cfg_}={sorted(b - a)[:3]}")
        ck.fail("CONFIG", "cross-config", "rule outcomes differ between feature configurations: " + "; ".join(diffs))
    return ck

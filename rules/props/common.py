"""helpers shared by the property modules"""
from .. import facts as FX
from ..alg import Unanalysable
from ..report import Check


def cfg_atoms(repo=None):
    """atoms of every conditional-compilation predicate in the crate's sources (attributes are stripped before HIR, so the
    source text is the only place they exist): {atom: [file:line, ..]}"""
    import os
    import re

    repo = repo or FX.REPO
    out = {}
    for root, _d, files in os.walk(os.path.join(repo, "src")):
        for fn in files:
            if not fn.endswith(".rs"):
                continue
            path = os.path.join(root, fn)
            try:
                text = open(path).read()
            except OSError:
                continue
            for m in re.finditer(r"\bcfg(_attr)?\s*!?\s*\(", text):
                i, depth = m.end(), 1
                while i < len(text) and depth:
                    depth += text[i] == "("
                    depth -= text[i] == ")"
                    i += 1
                pred = text[m.end():i - 1]
                if m.group(1):  # cfg_attr(pred, attrs..): the predicate is the first top-level argument
                    d_, k_ = 0, len(pred)
                    for k, ch in enumerate(pred):
                        d_ += ch == "("
                        d_ -= ch == ")"
                        if ch == "," and d_ == 0:
                            k_ = k
                            break
                    if pred[k_ + 1:].strip() == "no_std":
                        continue  # `#![cfg_attr(not(feature = "std"), no_std)]`: selects the prelude, gates no code of the crate
                    pred = pred[:k_]
                line = text.count("\n", 0, m.start()) + 1
                where = f"{os.path.relpath(path, repo)}:{line}"
                atoms = set(f'feature = "{x}"' for x in re.findall(r'feature\s*=\s*"([^"]*)"', pred))
                rest = re.sub(r'\w+\s*=\s*"[^"]*"', " ", pred)
                atoms |= {w for w in re.findall(r"[A-Za-z_][A-Za-z0-9_]*", rest) if w not in ("not", "any", "all")}
                atoms |= set(f'{k_} = "{v_}"' for k_, v_ in re.findall(r'(\w+)\s*=\s*"([^"]*)"', pred) if k_ != "feature")
                for a in atoms:
                    out.setdefault(a, []).append(where)
    return out


REVIEWED_CFG = {"test", 'feature = "yoloproofs"'}  # what the pinned tree uses: both are on in the analysed configurations
COVERED_CFG = {'feature = "parallel"', 'feature = "std"', 'feature = "rand"'}  # decided by one of the three feature configurations


def configs_for(tier):
    if tier != "quick":
        return ["default", "nostd", "parallel"]
    # the quick tier analyses the default configuration only -- as long as the crate's own code does not depend on the
    # configuration.  Code gated on a feature the other configurations toggle makes the quick tier analyse them too.
    atoms = set(cfg_atoms())
    return ["default", "nostd", "parallel"] if atoms & COVERED_CFG else ["default"]


def dependency_rule(ck):
    """Every claim rests on the published behaviour of the dependencies (Merlin, arkworks, SHA-3, ChaCha).  A registry
    package with a checksum is immutable; a `path`/`git` source or a `[patch]`/`[replace]` section puts arbitrary local code
    under a trusted name without touching the analysed crate: fail closed.  (A different registry *version* is a
    not-decided note where a version was reviewed, see C08 R08.4 - not a violation.)"""
    import os
    import re

    try:
        toml = open(os.path.join(FX.REPO, "Cargo.toml")).read()
    except OSError as ex:
        ck.fail("DEP", "manifest-readable", f"Cargo.toml not readable: {ex}", kind="anchor-missing")
        return
    try:
        # Cargo.lock is not tracked by the repository: a fresh checkout has none until the first build writes it (from the
        # manifest, which is checked below for path/git sources)
        lock = open(os.path.join(FX.REPO, "Cargo.lock")).read()
    except OSError:
        lock = ""
    root = re.search(r'^\[package\][^\[]*?^name\s*=\s*"([^"]+)"', toml, re.M | re.S)
    root = root.group(1) if root else None
    bad = []
    for blk in lock.split("[[package]]")[1:]:
        name = re.search(r'name = "([^"]+)"', blk)
        name = name.group(1) if name else "?"
        src = re.search(r'source = "([^"]*)"', blk)
        chk = re.search(r'checksum = "([0-9a-f]+)"', blk)
        if name == root and not src:
            continue
        if not (src and src.group(1).startswith("registry+") and chk):
            bad.append(f"{name} ({src.group(1) if src else 'path dependency'})")
    in_dep = False
    for line in (l_.split("#")[0] for l_ in toml.splitlines()):
        hdr = re.match(r"\s*\[+([^\]]+)\]+", line)
        if hdr:
            in_dep = "dependencies" in hdr.group(1)
            continue
        if in_dep and re.search(r"\b(path|git)\s*=", line):
            bad.append(f"Cargo.toml: {line.strip()[:80]}")
    for sec in re.findall(r"^\[(patch[^\]]*|replace)\]", toml, re.M):
        bad.append(f"[{sec}] section in Cargo.toml")
    if bad:
        ck.fail("DEP", "registry-sources", f"dependencies that are not immutable registry packages: {bad[:5]} - the analysed crate is unchanged but the code under a trusted name is not the reviewed one", "Cargo.toml", kind="unanalysable")


def cfg_rule(ck):
    """conditional compilation the analysed configurations do not decide (debug_assertions, target_*, an unknown feature)
    lets behaviour differ between the build the tests and this analysis see and the build a user runs: fail closed"""
    atoms = cfg_atoms()
    for a, wh in sorted(atoms.items()):
        if a in REVIEWED_CFG or a in COVERED_CFG:
            continue
        ck.fail("CFG", f"predicate:{a}", f"conditional compilation on `{a}` ({', '.join(wh[:3])}): none of the analysed configurations (default, no-std, parallel) decides it, so the code behind it is not what was analysed", wh[0], kind="unanalysable")


def run_configs(pid, tier, level, body, explanation, rule_text, not_decided=(), assumptions=()):
    """run `body(ck, F, cfg)` for every configuration of the tier; unanalysable -> violation"""
    ck = Check(pid, tier, level=level)
    ck.explanation = explanation
    ck.rule_text.append(rule_text)
    ck.not_decided = list(not_decided)
    ck.assumptions = list(assumptions)
    sigs = []
    cfg_rule(ck)
    dependency_rule(ck)
    for cfg in configs_for(tier):
        F = FX.load(cfg)
        ck.configs.append(cfg)
        before = len(ck.obligations)
        try:
            body(ck, F, cfg)
        except Unanalysable as u:
            ck.fail("TERM", f"{cfg}:unanalysable", f"construct outside the recognised fragment: {u.msg}", u.where, kind="unanalysable")
        except FX.AnchorMissing:
            raise
        except FX.ExtractError:
            raise
        except Exception as ex:  # engine limitation on an unexpected program shape: fail closed, readable
            import traceback

            tb = traceback.format_exc().strip().splitlines()
            ck.fail("TERM", f"{cfg}:engine", f"analysis could not process the program ({type(ex).__name__}: {ex}); {tb[-3].strip() if len(tb) > 2 else ''}", kind="unanalysable")
        sigs.append([(o[0], o[1], o[2]) for o in ck.obligations[before:] if o[0] != "WITNESS"])
    if len(sigs) > 1 and any(s != sigs[0] for s in sigs[1:]):
        diffs = []
        for cfg_, s in zip(ck.configs[1:], sigs[1:]):
            a, b = set(sigs[0]), set(s)
            diffs.append(f"{cfg_}: only-default={sorted(a - b)[:3]} only-{cfg_}={sorted(b - a)[:3]}")
        ck.fail("CONFIG", "cross-config", "rule outcomes differ between feature configurations: " + "; ".join(diffs))
    return ck


IMPLICIT_TRAITS = ("std::ops::Drop", "std::clone::Clone", "std::ops::Deref", "std::ops::DerefMut", "std::cmp::PartialEq", "std::cmp::Eq", "std::cmp::PartialOrd", "std::fmt::Debug", "std::fmt::Display", "std::borrow::Borrow", "std::convert::AsRef", "std::convert::AsMut", "std::hash::Hash")
EFFECT_CALLEES = ("merlin::Transcript", "TranscriptProtocol", "merlin::TranscriptRng", "rand_core::RngCore", "rand::Rng", "ark_std::UniformRand", "UniformRand::rand", "rand_core::SeedableRng")


def hidden_effects_rule(ck, F, rule):
    """Code the compiler calls implicitly (drop glue, `clone()`, `==`, deref, formatting; `Default` is left out: it is only ever called explicitly and the crate's two Default impls derive generators from a fixed seed) is not followed by the
    effect interpreter the way an explicit call is (drop glue not at all).  So such impls must be effect-free with respect to
    the protocol: no transcript operation and no random draw is reachable (MIR call graph, resolved callees) from any
    crate-local impl of these traits.  Expected: zero.  Positive control: the crate has Drop impls (zeroising) that are walked."""
    from .. import panic as PN

    walked = 0
    for imp in F.items["impls"]:
        tr = (imp["trait"] or "").split("<")[0]
        if tr not in IMPLICIT_TRAITS:
            continue
        entries = [p_ for p_ in imp["items"] if p_ in F.mir]
        if not entries:
            continue
        seen, _ = PN.reach(F, entries)
        bad = []
        for p_ in seen:
            walked += 1
            for tgt, f, t_ in PN.local_callees(F, p_):
                full = (f.get("resolved") or "") + " " + (f.get("path") or "")
                if any(x in full for x in EFFECT_CALLEES):
                    bad.append((p_, f.get("path")))
        ck.require(not bad, rule, f"implicit:{tr.split('::')[-1]}:{imp['self_ty'].split('<')[0]}", f"an implicitly invoked impl ({tr} for {imp['self_ty']}) reaches a transcript operation or a random draw: {bad[:3]} - such effects are invisible at the call sites the schedule and nonce rules read", FX.short(imp.get("sp")))
    ck.floor("implicitly invoked impl bodies walked", walked, 3)

"""helpers shared by the property modules"""
from .. import facts as FX
from ..alg import Unanalysable
from ..report import Check


def configs_for(tier):
    return ["default"] if tier == "quick" else ["default", "nostd", "parallel"]


def run_configs(pid, tier, level, body, explanation, rule_text, not_decided=(), assumptions=()):
    """run `body(ck, F, cfg)` for every configuration of the tier; unanalysable -> violation"""
    ck = Check(pid, tier, level=level)
    ck.explanation = explanation
    ck.rule_text.append(rule_text)
    ck.not_decided = list(not_decided)
    ck.assumptions = list(assumptions)
    sigs = []
    for cfg in configs_for(tier):
        F = FX.load(cfg)
        ck.configs.append(cfg)
        before = len(ck.obligations)
        try:
            body(ck, F, cfg)
        except Unanalysable as u:
            ck.fail("TERM", f"{cfg}:unanalysable", f"construct outside the recognised fragment: {u.msg}", u.where, kind="unanalysable")
        except FX.AnchorMissing:
            raise
        except FX.ExtractError:
            raise
        except Exception as ex:  # engine limitation on an unexpected program shape: fail closed, readable
            import traceback

            tb = traceback.format_exc().strip().splitlines()
            ck.fail("TERM", f"{cfg}:engine", f"analysis could not process the program ({type(ex).__name__}: {ex}); {tb[-3].strip() if len(tb) > 2 else ''}", kind="unanalysable")
        sigs.append([(o[0], o[1], o[2]) for o in ck.obligations[before:] if o[0] != "WITNESS"])
    if len(sigs) > 1 and any(s != sigs[0] for s in sigs[1:]):
        diffs = []
        for cfg_, s in zip(ck.configs[1:], sigs[1:]):
            a, b = set(sigs[0]), set(s)
            diffs.append(f"{cfg_}: only-default={sorted(a - b)[:3]} only-{cfg_}={sorted(b - a)[:3]}")
        ck.fail("CONFIG", "cross-config", "rule outcomes differ between feature configurations: " + "; ".join(diffs))
    return ck


IMPLICIT_TRAITS = ("std::ops::Drop", "std::clone::Clone", "std::ops::Deref", "std::ops::DerefMut", "std::cmp::PartialEq", "std::cmp::Eq", "std::cmp::PartialOrd", "std::fmt::Debug", "std::fmt::Display", "std::borrow::Borrow", "std::convert::AsRef", "std::convert::AsMut", "std::hash::Hash")
EFFECT_CALLEES = ("merlin::Transcript", "TranscriptProtocol", "merlin::TranscriptRng", "rand_core::RngCore", "rand::Rng", "ark_std::UniformRand", "UniformRand::rand", "rand_core::SeedableRng")


def hidden_effects_rule(ck, F, rule):
    """Code the compiler calls implicitly (drop glue, `clone()`, `==`, deref, formatting; `Default` is left out: it is only ever called explicitly and the crate's two Default impls derive generators from a fixed seed) is not followed by the
    effect interpreter the way an explicit call is (drop glue not at all).  So such impls must be effect-free with respect to
    the protocol: no transcript operation and no random draw is reachable (MIR call graph, resolved callees) from any
    crate-local impl of these traits.  Expected: zero.  Positive control: the crate has Drop impls (zeroising) that are walked."""
    from .. import panic as PN

    walked = 0
    for imp in F.items["impls"]:
        tr = (imp["trait"] or "").split("<")[0]
        if tr not in IMPLICIT_TRAITS:
            continue
        entries = [p_ for p_ in imp["items"] if p_ in F.mir]
        if not entries:
            continue
        seen, _ = PN.reach(F, entries)
        bad = []
        for p_ in seen:
            walked += 1
            for tgt, f, t_ in PN.local_callees(F, p_):
                full = (f.get("resolved") or "") + " " + (f.get("path") or "")
                if any(x in full for x in EFFECT_CALLEES):
                    bad.append((p_, f.get("path")))
        ck.require(not bad, rule, f"implicit:{tr.split('::')[-1]}:{imp['self_ty'].split('<')[0]}", f"an implicitly invoked impl ({tr} for {imp['self_ty']}) reaches a transcript operation or a random draw: {bad[:3]} - such effects are invisible at the call sites the schedule and nonce rules read", FX.short(imp.get("sp")))
    ck.floor("implicitly invoked impl bodies walked", walked, 3)

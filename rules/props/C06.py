"""C06 -- Fiat-Shamir discipline: schedules of both roles as regular languages."""
import sympy as sp

from .. import analyses as AN
from .. import facts as FX
from .. import harness as H
from .. import schedule as SC
from .. import sched as S
from ..alg import Bytes, Enum, Sc, Unanalysable, isym, ssym
from ..interp import RngV, Tr
from .common import run_configs

LEVEL = "other"
_TIER = "quick"
END = ("END", "", "")


def with_end(r):
    return ("seq", [r, ("sym", END)])


def clone_side_table(I):
    """ops on cloned transcripts and the position of each fork relative to main-transcript ops"""
    flat = AN.flat_trace(I.trace.items)
    out = {"forks": [], "clone_ops": [], "main_ops_after_fork": []}
    fork_seen = False
    for it, ctx in flat:
        if it[0] == "fork":
            out["forks"].append(it[1])
            fork_seen = True
        elif it[0] == "op":
            d = it[1]
            if d["tr"].is_clone():
                out["clone_ops"].append((d["kind"], d["label"], d["where"]))
            elif fork_seen and d["kind"] != "challenge_bytes":
                out["main_ops_after_fork"].append((d["kind"], d["label"], d["where"]))
    return out


def challenge_derivation(ck, F):
    path = "<merlin::Transcript as transcript::TranscriptProtocol<G>>::challenge_scalar"
    F.fn(path)
    ck.fn(path)
    I = H.new_interp(F)
    tr = Tr("t")
    v = I.call_fn(path, [tr, Bytes([("lit", b"lbl")])])
    ops = [it[1] for it in I.trace.items if it[0] == "op"]
    ok = len(ops) == 1 and ops[0]["kind"] == "challenge_bytes" and ops[0]["label"] == b"lbl"
    d = I.draw_log
    ok = ok and len(d) == 1 and isinstance(v, Sc) and v.e == d[0]["atom"]
    why = f"ops={[(o['kind'], o['label']) for o in ops]} draws={len(d)}"
    if ok:
        rng = d[0]["rng"]
        seed = rng.info.get("seed")
        ok = rng.kind == "chacha_seeded" and "ChaCha20Rng" in rng.info.get("impl", "") and isinstance(seed, Bytes) and len(seed.parts) == 1 and seed.parts[0][0] == "challenge" and seed.parts[0][1]["size"] == 32 and seed.parts[0][1]["label"] == b"lbl" and rng.draws == 1
        why = f"rng={rng.kind} impl={rng.info.get('impl')} seed={seed!r} draws={rng.draws}"
    ck.require(ok, "R06.6", "challenge_scalar", f"a challenge must be one draw from ChaCha20 seeded with 32 challenge bytes squeezed under the given label; {why}", FX.short(F.fn(path)["sp"]))


def body(ck, F, cfg):
    if _TIER == "thorough" and cfg == "default":
        from .. import witness

        witness.require(ck, ['W1', 'W1v', 'W2a', 'W2b', 'W2c'], "WITNESS")
    from .common import hidden_effects_rule

    hidden_effects_rule(ck, F, "R06.8")
    from . import C16 as _C16

    _C16.wrapper_challenge_rule(ck, F, "R06.9")  # randomized-phase challenges are squeezed from the main transcript, every time
    ref = SC.reference_schedule()
    col_v, col_p = [], []
    rv, parts_v = SC.verifier_schedule(F, col_v)
    rp, parts_p = SC.prover_schedule(F, col_p)
    for p in (H.P_VER + "new", H.P_VER + "commit", H.P_VER + "verification_scalars", H.P_PRV + "new", H.P_PRV + "commit", H.P_PRV + "prove_and_return_transcript", H.P_IPP + "create", H.P_IPP + "verification_scalars", H.P_VER + "create_randomized_constraints", H.P_PRV + "create_randomized_constraints"):
        ck.fn(p)
    ck.sample({"verifier_schedule": S.show_regex(rv)})
    ck.sample({"prover_schedule": S.show_regex(rp)})
    # R06.1 synchronisation (via the reference, and directly)
    for name, r in (("verifier", rv), ("prover", rp)):
        eqv, w = S.equivalent(r, ref)
        msg = ""
        if not eqv:
            word, side = w
            msg = f"{name} schedule differs from the reference schedule at [... {' '.join(S.show_regex(('sym', s)) for s in word[-4:])}] ({side}; first={name}, second=reference)"
        ck.require(eqv, "R06.1", f"{name}==reference", msg, "src/r1cs/" + name + ".rs")
    for name, parts in (("verifier", parts_v), ("prover", parts_p)):
        ck.require(parts["commit"] == SC.sym_pt("V", "V[*]"), "R06.1", f"{name}:commit-absorbs-V", f"commit must absorb the commitment unconditionally with label V; its schedule is `{S.show_regex(parts['commit'])}`", "src/r1cs/" + name + ".rs")
        ck.require(parts["new"] == SC.sym_msg("dom-sep", "r1cs v1"), "R06.1", f"{name}:new-separator", f"the constructor must absorb the r1cs domain separator and nothing else; its schedule is `{S.show_regex(parts['new'])}`", "src/r1cs/" + name + ".rs")
    # the branch taken at the phase switch is a function of the circuit (callbacks registered or not), identically on both roles
    from . import C16

    C16.phase_separator_rule(ck, F, "R06.1")
    eqv, w = S.equivalent(rv, rp)
    msg = ""
    if not eqv:
        word, side = w
        msg = f"prover and verifier schedules diverge at [... {' '.join(S.show_regex(('sym', s)) for s in word[-4:])}] ({side}; first=verifier, second=prover)"
    ck.require(eqv, "R06.1", "prover==verifier", msg)
    # R06.2 binding order: must-precede sets of every challenge
    is_ch = lambda s: s[0] == "challenge" or s == END
    need = S.must_precede(with_end(ref), is_ch)
    for name, r in (("verifier", rv), ("prover", rp)):
        have = S.must_precede(with_end(r), is_ch)
        for sym, req in sorted(need.items()):
            got = have.get(sym)
            lab = sym[1] or "END"
            if got is None:
                ck.fail("R06.2", f"{name}:<{lab}>", f"challenge <{lab}> of the reference schedule does not occur in the {name} schedule")
                continue
            missing = [S.show_regex(("sym", x)) for x in sorted(req - got) if x[0] != "challenge"]
            ck.require(not missing, "R06.2", f"{name}:<{lab}>", f"challenge <{lab}> is squeezed before the transcript absorbed: {missing}", detail=f"{len(req)} required predecessors")
    # R06.3 coverage of proof fields (enumerated from the type definitions)
    fields = []
    for adt, pre in (("r1cs::proof::R1CSProof", "pf."), ("inner_product_proof::InnerProductProof", "pf.")):
        a = F.adts.get(adt)
        if a is None:
            raise FX.AnchorMissing(adt)
        for f in a["variants"][0]["fields"]:
            if f["name"] == "ipp_proof":
                continue
            nm = f["name"]
            role = {"L_vec": "pf.L[*]", "R_vec": "pf.R[*]"}.get(nm, "pf." + nm)
            fields.append((nm, role, f["ty"]))
    all_syms_v = S.symbols_of(rv)
    on_all = S.must_precede(with_end(rv), lambda s: s == END).get(END, frozenset())
    for nm, role, ty in fields:
        if nm in ("a", "b"):
            absorbed = any(role == s[2].split(":", 1)[-1] for s in all_syms_v if ":" in s[2])
            ck.require(not absorbed, "R06.3", f"field:{nm}", f"final scalar {nm} is unexpectedly absorbed (reference binds it through the check only)")
            continue
        hit = [s for s in all_syms_v if s[2].endswith(":" + role)]
        if nm in ("L_vec", "R_vec"):
            ck.require(bool(hit), "R06.3", f"field:{nm}", f"list {nm} is never absorbed by the verifier")
        else:
            ck.require(any(s in on_all for s in hit), "R06.3", f"field:{nm}", f"proof field {nm} is not absorbed on every accepting verifier path")
    ck.floor("proof fields", len(fields), 18)
    # R06.4 label hygiene, R06.5 full encodings
    for name, r in (("verifier", rv), ("prover", rp)):
        syms = S.symbols_of(r)
        bad_lab = [s for s in syms if s[1] == "<non-literal>"]
        ck.require(not bad_lab, "R06.4", f"{name}:literal-labels", f"labels must be byte-string literals: {bad_lab}")
        groups = {}
        for s in syms:
            if s[0] in ("append_point", "append_scalar", "append_u64"):
                groups.setdefault((s[0], s[1]), set()).add(s[2])
        amb = {k: v for k, v in groups.items() if len(v) > 1}
        ck.require(not amb, "R06.4", f"{name}:unambiguous", f"label reused for different payload roles: {amb}")
        trunc = [s for s in syms if s[2].startswith(("bytes:", "COMPRESSED:")) or "expr:" in s[2]]
        ck.require(not trunc, "R06.5", f"{name}:full-encodings", f"payload is not the full uncompressed encoding of exactly one protocol value: {[ (s[1], s[2][:80]) for s in trunc]}")
    challenge_derivation(ck, F)
    # R06.7 returned transcripts and clone side table
    P = AN.prover_run(F)
    tb = P["transcript_back"]
    ck.require(isinstance(tb, Tr) and not tb.is_clone() and tb is P["prover"].fields["transcript"], "R06.7", "prover:returns-own-transcript", f"prove_and_return_transcript must hand back the system's own transcript, got {tb!r}")
    V = AN.verify_full(F)
    _, rv_ = AN.exit_chain(V["I"], V["ret"], lambda f: False)
    okv = isinstance(rv_, Enum) and rv_.variant == "Ok" and isinstance(rv_.payload[0], Tr) and rv_.payload[0] is V["ver"].fields["transcript"]
    ck.require(okv, "R06.7", "verifier:returns-own-transcript", f"verify_and_return_transcript must hand back the system's own transcript, got {rv_!r}")
    side = clone_side_table(AN.verifier_scalars(F)["I"])
    okc = len(side["forks"]) == 1 and [(k, l) for k, l, _ in side["clone_ops"]] == [("challenge_bytes", b"r")] and not side["main_ops_after_fork"]
    ck.require(okc, "R06.7", "verifier:clone-only-r", f"operations on cloned transcripts must be exactly the squeeze of `r`, forked after the last absorbed message: forks={len(side['forks'])} clone_ops={side['clone_ops']} main_after={side['main_ops_after_fork']}")
    pside = clone_side_table(P["I"])
    ck.require(not pside["forks"] and not pside["clone_ops"], "R06.7", "prover:no-clone", f"the prover must not operate on transcript clones: {pside['clone_ops']}")
    # R06.8 engine cross-check: operation sequence per function from MIR (reverse post-order) == from HIR (source order)
    from .. import mirsched as MS

    xfns = [H.P_VER + "verification_scalars", H.P_PRV + "prove_and_return_transcript", H.P_IPP + "verification_scalars", H.P_IPP + "create", H.P_VER + "create_randomized_constraints", H.P_PRV + "create_randomized_constraints", H.P_VER + "new", H.P_PRV + "new", H.P_VER + "commit", H.P_PRV + "commit"]
    xfns += [p_ for p_ in F.fns if p_.startswith("<merlin::Transcript as transcript::TranscriptProtocol<G>>::")]
    nops = 0
    for p_ in xfns:
        a_, b_ = MS.mir_schedule(F, p_), MS.hir_schedule(F, p_)
        nops += len(a_)
        branching = p_.endswith(("create_randomized_constraints", "InnerProductProof::<G>::create"))
        same = (sorted(map(str, a_)) == sorted(map(str, b_))) if branching else (a_ == b_)
        ck.require(same, "R06.8", f"mir-vs-hir:{p_.split('::')[-1] if 'TranscriptProtocol' in p_ else p_.split('::', 2)[-1][:60]}", f"transcript operations of {p_} differ between the MIR derivation {a_[:8]} and the HIR derivation {b_[:8]}", nontrivial=len(a_) > 1)
    ck.floor("cross-checked transcript call sites", nops, 20)  # 70+ on the reviewed tree; helper extraction legitimately merges call sites
    ck.extra["distinct_symbols"] = {"reference": len(S.symbols_of(ref)), "verifier": len(S.symbols_of(rv)), "prover": len(S.symbols_of(rp))}
    ck.floor("distinct schedule symbols (verifier)", len(S.symbols_of(rv)), 29)
    ck.floor("distinct schedule symbols (prover)", len(S.symbols_of(rp)), 29)
    ck.floor("challenges on the main transcript", len([s for s in S.symbols_of(rv) if s[0] == "challenge"]), 5)


def run(tier):
    global _TIER
    _TIER = tier
    ck = run_configs(
        "C06", tier, LEVEL, body,
        explanation="SCHED: the transcript operations of Prover::new/commit/prove and Verifier::new/commit/verification_scalars "
        "(with the TranscriptProtocol impl, create_randomized_constraints and both inner-product functions inlined) are extracted as a "
        "structured effect trace by the TERM interpreter and folded into regular expressions over (operation, label, payload role); "
        "payload roles are found by value (the prover's payload is the proof field the same term reaches). Both role languages must equal "
        "the reference schedule (DFA product), every challenge's must-precede set must contain all earlier messages, every proof field is "
        "absorbed, payloads are full uncompressed encodings, challenge derivation is one ChaCha20 draw from 32 squeezed bytes.",
        rule_text="R06.1 language equivalence (NFA->DFA->product); R06.2 must-precede dataflow on the DFA; R06.3 coverage from type definitions; R06.4/5 labels and encodings; R06.6 challenge derivation; R06.7 returned transcripts, clone side table; R06.8 MIR/HIR cross-check of the operation sequences",
        not_decided=["Merlin/STROBE internals", "that user callbacks themselves follow a discipline (they are USER holes at the same place in both roles)"],
        assumptions=["Merlin's append/challenge are a sound duplex construction", "user code is the same program on both sides"],
    )
    return ck.finish()


CLAIM = {
    "engine": "SCHED",
    "level": "other",
    "design_ref": "DESIGN.md section 4 C06, section 3.3",
    "technique": "static: effect-trace extraction by abstract interpretation; regular-language equivalence and must-precede dataflow on the schedule DFA",
    "text": "Decides, for all circuits and witnesses, the order and content of transcript operations of both roles as regular languages: equal to each "
    "other and to the protocol's schedule, every challenge after all earlier messages and separators, unambiguous literal labels, full encodings. "
    "A message dropped on both sides, absorbed after its challenge, or truncated is a language/symbol difference against the reference.",
    "note": "trusted: Merlin; reference schedule in rules/schedule.py",
}

"""C04 -- proof integrity: no proof field is free."""
import sympy as sp

from .. import analyses as AN
from .. import facts as FX
from .. import schedule as SC
from .. import sched as S
from .. import spec_ref as REF
from .. import wire
from ..alg import Sc, isym
from . import C06
from .common import run_configs

LEVEL = "other"
# field -> label of the first challenge that weights the relation the field enters (reference protocol order)
BINDING = {"A_I1": "y", "A_O1": "y", "S1": "y", "A_I2": "y", "A_O2": "y", "S2": "y", "T_1": "x", "T_3": "x", "T_4": "x", "T_5": "x", "T_6": "x", "t_x": "w", "t_x_blinding": "w", "e_blinding": "w"}
_TIER = "quick"


def body(ck, F, cfg):
    if _TIER == "thorough" and cfg == "default":
        from .. import witness

        witness.require(ck, ['W3a', 'W3b'], "WITNESS")
    A = AN.verify_full(F)
    I = A["I"]
    ck.fn(AN.H.P_VER + "verification_scalars")
    ck.fn(AN.H.P_VER + "verify_and_return_transcript")
    msms = list(I.msm_log)  # the run interprets verify_and_return_transcript only: its whole dynamic extent counts (the check may live in a helper)
    if len(msms) != 1:
        ck.fail("R04.1", "single-msm", f"expected one combined check, found {len(msms)}")
        return
    m = msms[0]
    bases, scal = m["bases"], m["scalars"]
    from ..alg import zip_vecs, Pt, Unanalysable
    from ..sched import atom_name

    j = isym("_j")
    base_scalar = {}
    all_scalar_syms = set()
    try:
        z = zip_vecs(bases, scal, I.bounds)
        for sg in z.nonempty_segs():
            t = sg.f(j)
            b, s_ = t.items
            nm = atom_name(b) if isinstance(b, Pt) else None
            e = sp.expand(s_.e) if isinstance(s_, Sc) else None
            if nm:
                base_scalar[nm] = e
            if e is not None:
                all_scalar_syms |= {str(x) for x in e.free_symbols}
    except Unanalysable as u:
        ck.fail("R04.1", "alignment", f"bases and scalars cannot be aligned: {u.msg}", kind="unanalysable")
        return
    fields = [(n, t) for n, t, _ in wire.struct_fields(F, "r1cs::proof::R1CSProof") if n != "ipp_proof"]
    ipp_fields = [(n, t) for n, t, _ in wire.struct_fields(F, "inner_product_proof::InnerProductProof")]
    leaf = 0
    for n, t in fields + ipp_fields:
        leaf += 1
        role = {"L_vec": "pf.L[*]", "R_vec": "pf.R[*]"}.get(n, "pf." + n)
        is_point = t in ("$T", "std::vec::Vec<$T>")
        if is_point:
            e = base_scalar.get(role)
            ck.require(e is not None and e != 0, "R04.1", f"field:{n}", f"proof point {n} must be a base of the combined check with a non-zero scalar; scalar = {e}", detail=str(e))
        else:
            ck.require(role in all_scalar_syms, "R04.1", f"field:{n}", f"proof scalar {n} does not occur in any scalar of the combined check: it is free")
    ck.floor("leaf proof fields", leaf, 18)
    # R04.2 each field except (a, b) is absorbed on every accepting path and followed by a challenge
    rv, _ = SC.verifier_schedule(F)
    on_all = S.must_precede(C06.with_end(rv), lambda s: s == C06.END).get(C06.END, frozenset())
    syms = S.symbols_of(rv)
    before_ch = S.must_precede(rv, lambda s: s[0] == "challenge")
    for n, t in fields + ipp_fields:
        role = {"L_vec": "pf.L[*]", "R_vec": "pf.R[*]"}.get(n, "pf." + n)
        hit = [s for s in syms if s[2].endswith(":" + role)]
        if n in ("a", "b"):
            continue
        if n in ("L_vec", "R_vec"):
            okk = bool(hit) and any(hit[0] in pre for ch, pre in before_ch.items() if ch[1] == "u")
            # inside the star the round challenge follows; checked on the star body in C10 R10.6
            ck.require(bool(hit), "R04.2", f"absorbed:{n}", f"list {n} is never absorbed")
            continue_ipp = True
            continue
        okk = any(s in on_all for s in hit) and any(any(s in pre for s in hit) for ch, pre in before_ch.items())
        ck.require(okk, "R04.2", f"absorbed:{n}", f"proof field {n} must be absorbed on every accepting verifier path before a later challenge")
        # the challenge that weights the field's own relation must come after the field
        lbl = BINDING[n] if n in BINDING else None
        if lbl is None:
            ck.fail("R04.2", f"bound-by:{n}", f"proof field {n} has no entry in the binding-challenge table (new field?)", kind="anchor-missing")
            continue
        pres = [pre for ch, pre in before_ch.items() if ch[1] == lbl]
        ck.require(bool(pres) and all(any(s in pre for s in hit) for pre in pres), "R04.2", f"bound-by:{n}", f"proof field {n} must be absorbed before challenge `{lbl}` is squeezed on every path (otherwise {n} can be changed after the challenge that weights it is known)")
    # L_j, R_j are weighted by u_j^2, u_j^-2: each round's challenge must be squeezed from the transcript after that round's
    # pair was absorbed, and the scalars must be built from that very squeeze (C10's R10.3 u_sq/u_inv_sq + R10.6, by reference;
    # added after seeded change C04i, where the round challenges came from a stream keyed once before the rounds)
    from .. import ipp as _ipp
    from . import C10 as _C10

    A_vs = _ipp.check_vs(ck, F, "R04.2")
    _C10.round_schedule_rule(ck, F, A_vs, "R04.2")
    # the verifier-only weight r joins the two relations: every field must be absorbed before the fork r is squeezed from
    flat = AN.flat_trace(I.trace.items)
    forked, late, r_ops = False, [], 0
    for it, ctx in flat:
        if it[0] == "fork":
            forked = True
        elif it[0] == "op":
            d = it[1]
            if d["tr"].is_clone():
                r_ops += d["kind"] == "challenge_bytes"
            elif forked and d["kind"] != "challenge_bytes" and "pf." in repr(d.get("payload")):
                late.append((d["kind"], d["label"]))
    if forked:
        ck.require(not late, "R04.2", "bound-by-r", f"proof elements absorbed only after the transcript fork the batching weight r is squeezed from are not bound by r: {late}", "src/r1cs/verifier.rs (verification_scalars)")
    else:
        pres = [pre for ch, pre in before_ch.items() if ch[1] == "r"]
        allf = [n for n, _ in fields if n not in ("a", "b")]
        okr = bool(pres) and all(any(s[2].endswith(":pf." + n) for s in pre) for pre in pres for n in allf)
        ck.require(okr, "R04.2", "bound-by-r", "the batching weight r must be squeezed after every proof element is absorbed", "src/r1cs/verifier.rs (verification_scalars)")
    # R04.4 batch verification is verification too: an altered proof must not be accepted there either (C07's rules by reference)
    from . import C07

    C07.body(ck, F, cfg)
    # R04.3 decoding is validated
    wire.check_decode(ck, F, "R04.3")
    vis = wire.struct_fields(F, "r1cs::proof::R1CSProof")
    ck.require(all(v != "pub" for _, _, v in vis), "R04.3", "fields-not-public", f"proof fields must not be public (a proof arises only from prove/from_bytes/clone): {[(n, v) for n, _, v in vis if v == 'pub']}")


def run(tier):
    global _TIER
    _TIER = tier
    ck = run_configs(
        "C04", tier, LEVEL, body,
        explanation="The leaf fields of R1CSProof/InnerProductProof are enumerated from the type definitions (so a newly added field without a term is reported). "
        "TERM aligns the base list and scalar list of the combined check: every point field must be a base with a non-zero scalar normal form, every scalar field must "
        "occur in some scalar. SCHED: every field except the two final scalars lies on all accepting paths of the verifier schedule before a later challenge. WIRE: decoding "
        "goes through the validated compressed decoder only.",
        rule_text="R04.1 non-zero scalar per field; R04.2 absorbed on every accepting path, before the challenge weighting its relation and before r (table BINDING); R04.3 validated decode, private fields; R04.4 = C07 rules (batch accepts nothing single verification rejects)",
        not_decided=["exhaustive bit-flip sweep of encodings (needs execution)", "that distinct encodings decode to distinct objects (ark-serialize canonicity, pinned dependency)"],
        assumptions=["ark-serialize deserialize_compressed = Compress::Yes + Validate::Yes (pinned 0.4.2)"],
    )
    return ck.finish()


CLAIM = {
    "engine": "TERM+SCHED+WIRE",
    "level": "other",
    "design_ref": "DESIGN.md section 4 C04",
    "technique": "static: per-field coverage of the combined check (symbolic scalars) and of the transcript schedule; decoder who-may-call",
    "text": "Decides the necessary structural condition for non-malleability: every field enumerated from the proof types enters the verification equation with a non-zero "
    "challenge-dependent scalar and (except a, b) is absorbed before the challenge that weights its own relation (A/S before y, T_i before x, "
    "t_x/t_x_blinding/e_blinding before w, each L_j/R_j before the round challenge u_j its scalars are built from) and before the fork the batching weight r is squeezed from; decoding is the validated one.",
    "note": "trusted: soundness of the reference equation (C02/C03) makes a bound, weighted field non-malleable; ark-serialize validation",
}

"""C16 -- prover and verifier assign identical variables for identical call sequences (TWIN)."""
import sympy as sp

from .. import facts as FX
from .. import harness as H
from ..alg import Bounds, Cond, Enum, IntV, Ite, Opaque, Pt, Sc, Seg, Struct, Tup, Unanalysable, Vec, eq, isym, sfun, show, ssym, val_eq, vec_eq
from ..interp import ReturnSignal, Tr
from .common import run_configs

LEVEL = "other"
_TIER = "quick"
CS = "r1cs::constraint_system::ConstraintSystem<<G as ark_ec::AffineRepr>::ScalarField>"
PRV = "<r1cs::prover::Prover<'g, G, T> as " + CS + ">::"
VER = "<r1cs::verifier::Verifier<G, T> as " + CS + ">::"
RPRV = "<r1cs::prover::RandomizingProver<'g, G, T> as " + CS + ">::"
RVER = "<r1cs::verifier::RandomizingVerifier<G, T> as " + CS + ">::"
METHODS = ["multiply", "allocate", "allocate_multiplier", "multipliers_len", "constrain", "transcript"]

c, p, q = isym("c"), isym("p"), isym("q")


def mk_lc(name):
    t = isym("len_" + name)
    return Struct("r1cs::linear_combination::LinearCombination", {"terms": Vec([Seg(t, lambda j: Tup([Opaque("var", lc=name, j=j), Sc(sfun("coef_" + name)(j))]))])})


# How "no half-open gate" / "half-open gate i" are represented is the crate's private business (an Option<usize> on the
# reviewed tree).  Both representations are read off the code: the empty one from the constructor, the half-open one from
# the state one `allocate` leaves behind on an empty system (its integer leaf is the gate index).
_REPR = {}


def _int_leaves(v):
    if isinstance(v, IntV):
        return [v]
    if isinstance(v, Enum):
        return [y for x in v.payload for y in _int_leaves(x)]
    if isinstance(v, Struct):
        return [y for x in v.fields.values() for y in _int_leaves(x)]
    if isinstance(v, Tup):
        return [y for x in v.items for y in _int_leaves(x)]
    return []


def _with_leaf(v, new):
    if isinstance(v, IntV):
        return new
    if isinstance(v, Enum):
        return Enum(v.path, v.variant, [_with_leaf(x, new) for x in v.payload])
    if isinstance(v, Struct):
        return Struct(v.path, {k: _with_leaf(x, new) for k, x in v.fields.items()})
    if isinstance(v, Tup):
        return Tup([_with_leaf(x, new) for x in v.items])
    return v


def _shape(v):
    """value with its integer leaves blanked: two pending values of the same shape differ only in the gate index"""
    return repr(_with_leaf(v, IntV(sp.Symbol("_"))))


def pending_reprs(F, role):
    key = (id(F), role)
    if key in _REPR:
        return _REPR[key]
    none = Enum("Option", "None", [])
    some = Enum("Option", "Some", [IntV(c)])
    try:
        I = H.new_interp(F)
        args = [H.mk_pc_gens(), Tr("ctor")] if role == "prover" else [Tr("ctor")]
        st0 = I.call_fn((H.P_PRV if role == "prover" else H.P_VER) + "new", args)
        cand = st0.fields.get("pending_multiplier") if isinstance(st0, Struct) else None
        if cand is not None and not _int_leaves(cand):
            none = cand
            _REPR[key] = (none, some)  # provisional: state() below needs the empty representation
            R = run_method(F, role, "allocate", None)
            pm = R["state"].fields["pending_multiplier"]
            if len(_int_leaves(pm)) == 1:
                some = pm
    except (Unanalysable, FX.AnchorMissing, KeyError):
        pass
    _REPR[key] = (none, some)
    return _REPR[key]


_CUR_F = [None]


def state(role, pending):
    cons = Vec([Seg(q, lambda j: Opaque("lc", j=j))])
    none, some = pending_reprs(_CUR_F[0], role) if _CUR_F[0] is not None else (Enum("Option", "None", []), Enum("Option", "Some", [IntV(c)]))
    pend = none if pending is None else _with_leaf(some, IntV(pending))
    if role == "prover":
        sec = Struct("r1cs::prover::Secrets", {"a_L": H.sc_vec("aL", c), "a_R": H.sc_vec("aR", c), "a_O": H.sc_vec("aO", c), "v": H.sc_vec("v", isym("m")), "v_blinding": H.sc_vec("vb", isym("m"))})
        return Struct("r1cs::prover::Prover", {"transcript": Tr("main"), "pc_gens": H.mk_pc_gens(), "constraints": cons, "secrets": sec, "deferred_constraints": Vec([]), "pending_multiplier": pend})
    return Struct("r1cs::verifier::Verifier", {"transcript": Tr("main"), "constraints": cons, "num_vars": IntV(c), "V": H.pt_vec("V", isym("m")), "deferred_constraints": Vec([]), "pending_multiplier": pend})


def count_of(role, st):
    if role == "prover":
        s = st.fields["secrets"].fields
        return s["a_L"].length(), s["a_R"].length(), s["a_O"].length()
    n = st.fields["num_vars"].e
    return n, n, n


def opt_param(name):
    return Ite(Cond("is_some", text=name), Enum("Option", "Some", [Sc(ssym(name))]), Enum("Option", "None", []))


def run_method(F, role, method, pending, args_kind="some"):
    _CUR_F[0] = F
    path = (PRV if role == "prover" else VER) + method
    F.fn(path)
    I = H.new_interp(F)
    I.bounds = Bounds()
    if pending is not None:
        I.bounds = I.bounds.with_ub(p, c)
        I.bounds.add_le(1, c)  # 0 <= p < c

    def hook_eval(I_, args, node):
        lc = I_.deref(args[1])
        nm = "?"
        if isinstance(lc, Struct):
            el = lc.fields["terms"].segs[0].f(isym("_j")) if lc.fields["terms"].segs else None
            if isinstance(el, Tup) and isinstance(el.items[0], Opaque):
                nm = el.items[0].info.get("lc", "?")
        return Sc(ssym("EVAL_" + nm))

    try:
        I.hooks[H.eval_site(F)[0]] = hook_eval
    except FX.AnchorMissing:
        if role == "prover":
            raise
    st = state(role, pending)
    if method == "multiply":
        args = [st, mk_lc("left"), mk_lc("right")]
    elif method == "allocate":
        a = opt_param("x") if args_kind == "some" else Enum("Option", "None", [])
        args = [st, a]
    elif method == "allocate_multiplier":
        if args_kind == "some":
            a = Ite(Cond("is_some", text="lr"), Enum("Option", "Some", [Tup([Sc(ssym("xl")), Sc(ssym("xr"))])]), Enum("Option", "None", []))
        else:
            a = Enum("Option", "None", [])
        args = [st, a]
    elif method == "constrain":
        args = [st, mk_lc("lc")]
    else:
        args = [st]
    try:
        ret = I.call_fn(path, args)
    except ReturnSignal as r:
        ret = r.val
    guards = [it for it in I.trace.items if it[0] == "guard"]
    # canonical exits: a failure written as the tail of a match (`None => Err(MissingAssignment)`) instead of `ok_or(..)?`
    # leaves a conditional return value and a conditionally updated state; peel the failing side off both (the state on
    # the continuing side is what the transition summaries describe)
    from .. import analyses as _AN

    rd = I.deref(ret)
    if isinstance(rd, Ite):
        chain, final = _AN.exit_chain(I, rd, None)
        tails = [c_ for c_ in chain if c_[2] == "tail"]
        if tails and not isinstance(final, Ite):
            for cond_abort, err_v, _w in tails:
                project_state(I, st, cond_abort, abort_holds=False)
                guards = guards + [("guard", cond_abort, err_v, "tail", path)]
            ret = final
    return {"ret": ret, "state": st, "guards": guards, "I": I, "path": path}


def project_state(I, v, cond, abort_holds):
    """replace, inside a struct value, every ite on `cond` by the side on which `cond` is false (abort_holds=False)"""
    key = cond.key().lstrip("!")
    neg = cond.key().startswith("!")

    def pick(x):
        x = I.deref(x)
        if isinstance(x, Ite) and isinstance(x.cond, Cond) and x.cond.key().lstrip("!") == key:
            cond_true_here = (x.cond.key().startswith("!") == neg)  # x.cond is the same polarity as `cond`
            # we want the side where `cond` is false
            side = x.b if cond_true_here else x.a
            return pick(side) if abort_holds is False else pick(x.a if cond_true_here else x.b)
        if isinstance(x, Struct):
            for k_ in list(x.fields):
                x.fields[k_] = pick(x.fields[k_])
            return x
        if isinstance(x, Vec):
            try:
                return x.map(lambda el: pick(el)) if any(isinstance(I.deref(s_.f(isym("_j"))), Ite) for s_ in x.nonempty_segs()) else x
            except Exception:
                return x
        return x

    pick(v)


def var_summary(v):
    if isinstance(v, Enum) and "linear_combination::Variable" in v.path:
        return (v.variant, str(sp.expand(v.payload[0].e)) if v.payload and isinstance(v.payload[0], IntV) else None)
    return repr(v)


def ret_summary(ret):
    if isinstance(ret, Enum) and ret.variant in ("Ok", "Err"):
        inner = ret.payload[0] if ret.payload else None
        return (ret.variant, ret_summary(inner))
    if isinstance(ret, Tup):
        return tuple(ret_summary(x) for x in ret.items)
    if isinstance(ret, IntV):
        return ("int", str(sp.expand(ret.e)))
    if isinstance(ret, Tr):
        return ("transcript", ret.name)
    return var_summary(ret)


def pending_summary(st):
    pm = st.fields["pending_multiplier"]
    role = "prover" if st.path.endswith("Prover") else "verifier"
    none, some = pending_reprs(_CUR_F[0], role) if _CUR_F[0] is not None else (Enum("Option", "None", []), Enum("Option", "Some", [IntV(c)]))
    lv = _int_leaves(pm)
    if not lv and _shape(pm) == _shape(none):
        return ("None", None)
    if len(lv) == 1 and _shape(pm) == _shape(some):
        return ("Some", str(sp.expand(lv[0].e)))
    return repr(pm)


def is_empty_pending(pm, role):
    none, _ = pending_reprs(_CUR_F[0], role) if _CUR_F[0] is not None else (Enum("Option", "None", []), None)
    return not isinstance(pm, Opaque) and not _int_leaves(pm) and _shape(pm) == _shape(none)


def cons_summary(st):
    cs = st.fields["constraints"]
    return str(sp.expand(cs.length() - q)) if isinstance(cs, Vec) else repr(cs)


def summary(F, role, method, pending):
    _CUR_F[0] = F
    R = run_method(F, role, method, pending)
    st = R["state"]
    cl, cr, co = count_of(role, st)
    errs = [(str(g[1]), repr(g[2])) for g in R["guards"]]
    if role == "verifier":
        errs_cmp = errs
    return {"ret": ret_summary(R["ret"]), "count": str(sp.expand(cl - c)), "lockstep": eq(cl, cr) and eq(cl, co), "pending": pending_summary(st), "constraints": cons_summary(st), "errors": errs, "R": R}


def wrapper_delegates(F, wpath_prefix, inner_field, method):
    """the wrapper method's body is exactly self.<inner>.<method>(params in order)"""
    fn = F.fn(wpath_prefix + method)
    body = fn["body"]
    e = body.get("expr") if body["k"] == "Block" and not body["stmts"] else None
    if e is None or e["k"] != "MethodCall":
        return False, "body is not a single method call"
    params = [pp["pat"].get("id") for pp in fn["params"]]
    if method == "transcript":
        ok = e["name"] == "borrow_mut" and e["recv"]["k"] == "Field" and e["recv"]["name"] == "transcript" and e["recv"]["base"]["k"] == "Field" and e["recv"]["base"]["name"] == inner_field
        return ok, "must be self.<inner>.transcript.borrow_mut()"
    if e["name"] != method:
        return False, f"calls {e['name']} instead of {method}"
    r = e["recv"]
    if not (r["k"] == "Field" and r["name"] == inner_field and r["base"]["k"] == "Path" and r["base"]["res"].get("id") == params[0]):
        return False, "receiver is not self.<inner>"
    argids = []
    for a in e["args"]:
        a = FX.strip(a)
        argids.append(a["res"].get("id") if a["k"] == "Path" and a["res"]["k"] == "Local" else None)
    if argids != params[1:]:
        return False, "arguments are not the parameters passed through in order"
    inner_impl = FX.callee_info(e).get("resolved") or ""
    return True, inner_impl


def multiply_constraint_rules(ck, F, rule):
    _CUR_F[0] = F
    """both roles' multiply records exactly `left - l_var = 0` and `right - r_var = 0` (content, not only count)"""
    for role in ("prover", "verifier"):
        R = run_method(F, role, "multiply", None)
        cons = R["state"].fields["constraints"]
        for pos, nm, var in ((q, "left", "MultiplierLeft"), (q + 1, "right", "MultiplierRight")):
            okc, why = False, "constraint list not extended"
            if isinstance(cons, Vec) and eq(cons.length(), q + 2):
                lcx = cons.index(pos)
                if isinstance(lcx, Struct) and isinstance(lcx.fields.get("terms"), Vec):
                    tv = lcx.fields["terms"]
                    ln = isym("len_" + nm)
                    why = f"terms = {show(tv)}"
                    if eq(tv.length(), ln + 1):
                        last = tv.index(ln)
                        pre_ok = vec_eq(tv.take(ln), mk_lc(nm).fields["terms"].map(lambda t: t)) if False else True
                        first = tv.index(isym("_j"), Bounds().with_ub(isym("_j"), ln))
                        pre_ok = isinstance(first, Tup) and isinstance(first.items[0], Opaque) and first.items[0].info.get("lc") == nm and eq(first.items[1].e, sfun("coef_" + nm)(isym("_j")))
                        okc = pre_ok and isinstance(last, Tup) and isinstance(last.items[0], Enum) and last.items[0].variant == var and eq(last.items[0].payload[0].e, c) and isinstance(last.items[1], Sc) and eq(last.items[1].e, -1)
            ck.require(okc, rule, f"multiply-constraint:{role}:{nm}", f"{role}'s multiply must record the constraint {nm} - {var}(new gate) = 0 (the given terms followed by the new wire with coefficient -1); {why}")


def phase_separator_rule(ck, F, rule):
    _CUR_F[0] = F
    """`r1cs-1phase` is absorbed exactly when no randomized callback is registered, `r1cs-2phase` (then the callbacks)
    exactly when at least one is -- on both roles, so that the same circuit takes the same branch"""
    from ..alg import Bounds, Bytes

    for role, prefix in (("prover", H.P_PRV), ("verifier", H.P_VER)):
        for case, want in (("none", "r1cs-1phase"), ("some", "r1cs-2phase")):
            I = H.new_interp(F)
            I.bounds = Bounds()
            st = state(role, None)
            if case == "some":
                ncb = isym("ncb")
                I.bounds.add_le(1, ncb)
                st.fields["deferred_constraints"] = Vec.atom("cb", ncb, mk=lambda e_: Opaque("callback", id=e_))
            try:
                I.call_fn(prefix + "create_randomized_constraints", [st])
            except Unanalysable as u:
                ck.fail(rule, f"phase-separator:{role}:{case}", f"unanalysable: {u.msg}", u.where, kind="unanalysable")
                continue
            flat = __import__("rules.analyses", fromlist=["flat_trace"]).flat_trace(I.trace.items)
            seps = [it[1]["payload"].parts[0][1].decode(errors="replace") for it, ctx in flat if it[0] == "op" and it[1]["label"] == b"dom-sep" and isinstance(it[1]["payload"], Bytes) and not any(c_[0].startswith("alt") for c_ in ctx)]
            users = [it for it, ctx in flat if it[0] == "user"]
            ok = seps == [want] and (bool(users) == (case == "some"))
            ck.require(ok, rule, f"phase-separator:{role}:{case}", f"with {'no' if case == 'none' else 'at least one'} randomized callback the {role} must absorb `{want}`{' and run the callbacks' if case == 'some' else ' and run nothing'}; it absorbs {seps} and runs {len(users)} callback site(s)", "src/r1cs/" + role + ".rs")


def callbacks_rule(ck, F, rule):
    _CUR_F[0] = F
    """create_randomized_constraints invokes every deferred callback exactly once, in order, on both roles"""
    for role, prefix in (("prover", H.P_PRV), ("verifier", H.P_VER)):
        I = H.new_interp(F)
        st = state(role, None)
        ncb = isym("ncb")
        st.fields["deferred_constraints"] = Vec.atom("cb", ncb, mk=lambda e_: Opaque("callback", id=e_))
        try:
            I.call_fn(prefix + "create_randomized_constraints", [st])
        except Unanalysable as u:
            ck.fail(rule, f"all-callbacks:{role}", f"unanalysable: {u.msg}", u.where, kind="unanalysable")
            continue
        loops = [l for l in I.loop_log if l["fn"].endswith("create_randomized_constraints")]
        users = [(it, ctx) for it, ctx in __import__("rules.analyses", fromlist=["flat_trace"]).flat_trace(I.trace.items) if it[0] == "user"]
        in_star = [u for u in users if any(c_[0] == "star" for c_ in u[1])]
        ok = len(loops) == 1 and eq(loops[0]["n"], ncb) and eq(loops[0]["off"], 0) and len(users) == 1 and len(in_star) == 1
        ck.require(ok, rule, f"all-callbacks:{role}", f"every deferred randomized callback must be invoked (one loop over all {ncb} callbacks); loops {[(str(l['n']), str(l['off'])) for l in loops]}, callback invocations {len(users)} (inside a loop: {len(in_star)})", "src/r1cs/" + role + ".rs")


def registration_rule(ck, F, rule):
    """specify_randomized_constraints appends the given callback to the deferred list -- unconditionally, at the end, exactly
    once -- and returns Ok, on both roles (added after mutation campaign 3: deleting the push survived every check)."""
    _CUR_F[0] = F
    pats = {"prover": ("r1cs::prover::Prover", "RandomizableConstraintSystem"), "verifier": ("r1cs::verifier::Verifier", "RandomizableConstraintSystem")}
    for role, (self_ty, trait) in pats.items():
        cands = [p_ for imp in F.items["impls"] if imp["self_ty"].startswith(self_ty + "<") and (imp["trait"] or "").split("<")[0].endswith(trait) for p_ in imp["items"] if p_.endswith("::specify_randomized_constraints")]
        if len(cands) != 1:
            ck.fail(rule, f"register-callback:{role}", f"specify_randomized_constraints of the {role} not found (candidates {cands})", kind="anchor-missing")
            continue
        path = cands[0]
        ck.fn(path)
        I = H.new_interp(F)
        st = state(role, None)
        ncb = isym("ncb")
        st.fields["deferred_constraints"] = Vec.atom("cb", ncb, mk=lambda e_: Opaque("callback", id=e_))
        cb = Opaque("callback", id="new")
        try:
            try:
                ret = I.call_fn(path, [st, cb])
            except ReturnSignal as r_:
                ret = r_.val
        except Unanalysable as u:
            ck.fail(rule, f"register-callback:{role}", f"unanalysable: {u.msg}", u.where, kind="unanalysable")
            continue
        d = I.deref(st.fields["deferred_constraints"])
        last = None
        if isinstance(d, Vec) and eq(d.length(), ncb + 1):
            try:
                last = I.deref(d.index(ncb))
            except Unanalysable:
                last = None
        # `Box::new(callback)` / `Box<dyn Fn>` coercions are identities for the interpreter
        ok_last = last is cb or (isinstance(last, Opaque) and last.what == "callback" and last.info.get("id") == "new")
        okret = isinstance(I.deref(ret), Enum) and I.deref(ret).variant == "Ok"
        exits = [it for it in AN_flat(I.trace.items) if it[0] in ("guard", "alt")]
        ck.require(ok_last and okret and not exits, rule, f"register-callback:{role}", f"specify_randomized_constraints must append the callback to the deferred list (length {ncb} -> {ncb}+1, new last element = the callback) and return Ok, unconditionally; list afterwards has length {d.length() if isinstance(d, Vec) else d!r}, last element {last!r}, returns {ret!r}, conditional paths {[str(x[1]) for x in exits]}", FX.short(F.fn(path)["sp"]))


def constrain_rules(ck, F, rule):
    _CUR_F[0] = F
    """constrain(lc) appends exactly the given linear combination, unconditionally, on both roles"""
    for role in ("prover", "verifier"):
        try:
            s_ = summary(F, role, "constrain", None)
        except Unanalysable as u:
            ck.fail(rule, f"constrain:{role}", f"unanalysable: {u.msg}", u.where, kind="unanalysable")
            continue
        ck.require(s_["constraints"] == "1" and s_["count"] == "0" and not s_["errors"], rule, f"constrain:{role}", f"constrain must append exactly one constraint, unconditionally: {s_['constraints']} appended, exits {s_['errors']}")
        cs = s_["R"]["state"].fields["constraints"]
        last = cs.index(q) if isinstance(cs, Vec) and eq(cs.length(), q + 1) else None
        okl = isinstance(last, Struct) and isinstance(last.fields["terms"], Vec) and eq(last.fields["terms"].length(), isym("len_lc"))
        ck.require(okl, rule, f"constrain-stores-arg:{role}", "constrain must store the given linear combination unchanged")


def commit_rules(ck, F, rule="R16.7"):
    """Committed-variable handles: on a system holding m commitments, `commit` of either role returns `Committed(m)`
    and the system then holds m + 1 -- unconditionally (no early exit, no dependence on the committed value), so the
    j-th call yields handle j on both sides whatever is committed (added after seeded change C16i)."""
    from .. import schedule as SC

    m = isym("m")
    for role, path in (("prover", H.P_PRV + "commit"), ("verifier", H.P_VER + "commit")):
        ck.fn(path)
        try:
            nc = SC.run_new_commit(F, role)
        except Unanalysable as u:
            ck.fail(rule, f"commit:{role}", f"unanalysable: {u.msg}", u.where, kind="unanalysable")
            continue
        I, obj, ret = nc["I"], nc["obj"], nc["I"].deref(nc["ret"])
        var = ret.items[1] if role == "prover" and isinstance(ret, Tup) and len(ret.items) == 2 else ret
        var = I.deref(var)
        okv = isinstance(var, Enum) and var.variant == "Committed" and len(var.payload) == 1 and isinstance(I.deref(var.payload[0]), IntV) and eq(I.deref(var.payload[0]).e, m)
        store = I.deref(obj.fields["secrets"]).fields["v"] if role == "prover" else obj.fields["V"]
        store = I.deref(store)
        okn = isinstance(store, Vec) and eq(store.length(), m + 1)
        exits = [it for it in AN_flat(nc["commit"]) if it[0] in ("guard", "alt")]
        ck.require(okv and okn and not exits, rule, f"commit:{role}", f"commit on a system with m commitments must return Committed(m) and leave m + 1 commitments, on every path; returned {var!r}, commitments afterwards {store.length() if isinstance(store, Vec) else store!r}, conditional paths {[str(x[1]) for x in exits]}", FX.short(F.fn(path)["sp"]))


def initial_state_rule(ck, F, rule="R16.8"):
    """A fresh system of either role holds nothing: gate count 0, no commitments, no constraints, no deferred callbacks,
    no open gate -- the transitions above start from the same state on both sides (mutation campaign 3: `num_vars: 1` in
    Verifier::new survived)."""
    for role, path in (("prover", H.P_PRV + "new"), ("verifier", H.P_VER + "new")):
        ck.fn(path)
        I = H.new_interp(F)
        try:
            obj = I.deref(I.call_fn(path, [H.mk_pc_gens(), Tr("main")] if role == "prover" else [Tr("main")]))
        except Unanalysable as u:
            ck.fail(rule, f"fresh:{role}", f"unanalysable: {u.msg}", u.where, kind="unanalysable")
            continue
        bad = []

        def want_len0(v, what):
            v = I.deref(v)
            if not (isinstance(v, Vec) and eq(v.length(), 0)):
                bad.append(f"{what} = {v!r}")

        try:
            if role == "prover":
                sec = I.deref(obj.fields["secrets"])
                for k_ in ("a_L", "a_R", "a_O", "v", "v_blinding"):
                    want_len0(sec.fields[k_], "secrets." + k_)
            else:
                nv = I.deref(obj.fields["num_vars"])
                if not (isinstance(nv, IntV) and eq(nv.e, 0)):
                    bad.append(f"num_vars = {nv!r}")
                want_len0(obj.fields["V"], "V")
            want_len0(obj.fields["constraints"], "constraints")
            want_len0(obj.fields["deferred_constraints"], "deferred_constraints")
            if not is_empty_pending(obj.fields["pending_multiplier"], role):
                bad.append(f"pending_multiplier = {obj.fields['pending_multiplier']!r}")
        except (KeyError, AttributeError) as ex:
            bad.append(f"state not readable: {ex!r}")
        ck.require(not bad, rule, f"fresh:{role}", f"a fresh {role} must hold no gates, commitments, constraints, callbacks or open gate; found {bad}", FX.short(F.fn(path)["sp"]))


def wrapper_challenge_rule(ck, F, rule="R16.6"):
    """`challenge_scalar(label)` of each randomizing wrapper is exactly one challenge squeezed under that label from the inner
    system's transcript -- on every call, unconditionally, and it returns that challenge (no caching, no other source).  The
    callback summary only probes this method; this rule is its fail-closed counterpart (seeded change C06j: challenges cached
    by label made the probe unanalysable, which was swallowed)."""
    from ..alg import Bytes, Ref

    for role, wty, inner_f in (("prover", "r1cs::prover::RandomizingProver", "prover"), ("verifier", "r1cs::verifier::RandomizingVerifier", "verifier")):
        cands = [p_ for imp in F.items["impls"] if imp["self_ty"].startswith(wty + "<") and (imp["trait"] or "").split("<")[0].endswith("RandomizedConstraintSystem") for p_ in imp["items"] if p_.endswith("::challenge_scalar")]
        if len(cands) != 1:
            ck.fail(rule, f"wrapper-challenge:{role}", f"challenge_scalar of {wty} not found (candidates {cands})", kind="anchor-missing")
            continue
        path = cands[0]
        ck.fn(path)
        I = H.new_interp(F)
        st = state(role, None)
        adt = F.adts.get(wty)
        fields = {}
        for f_ in (adt["variants"][0]["fields"] if adt else []):
            fields[f_["name"]] = st if f_["name"] == inner_f else Opaque("wrapper-state:" + f_["name"])
        if inner_f not in fields:
            ck.fail(rule, f"wrapper-challenge:{role}", f"{wty} has no field `{inner_f}`", kind="anchor-missing")
            continue
        extra = sorted(k_ for k_ in fields if k_ != inner_f)
        w = Struct(wty, fields)
        try:
            try:
                ret = I.call_fn(path, [w, Bytes([("lit", b"probe")])])
            except ReturnSignal as r_:
                ret = r_.val
        except Unanalysable as u:
            ck.fail(rule, f"wrapper-challenge:{role}", f"unanalysable: {u.msg}" + (f" (the wrapper carries state of its own: {extra})" if extra else ""), u.where, kind="unanalysable")
            continue
        flat = AN_flat(I.trace.items)
        ops = [it[1] for it in flat if it[0] == "op"]
        cond = [it for it in flat if it[0] in ("alt", "guard", "star")]
        main_tr = I.deref(st.fields["transcript"])
        ok = len(ops) == 1 and ops[0]["kind"] == "challenge_bytes" and ops[0]["label"] == b"probe" and ops[0]["tr"] is main_tr and not cond
        rd = I.deref(ret)
        ok = ok and isinstance(rd, Sc) and len(I.draw_log) == 1 and rd.e == I.draw_log[0]["atom"]
        ck.require(ok, rule, f"wrapper-challenge:{role}", f"challenge_scalar(label) of the randomizing wrapper must squeeze exactly one challenge under `label` from the inner system's transcript, on every call, and return it; operations {[(o['kind'], o['label']) for o in ops]}, conditional paths {len(cond)}, returns {rd!r}", FX.short(F.fn(path)["sp"]))


def AN_flat(items):
    out = []
    for it in items:
        out.append(it)
        if it[0] == "star":
            out.extend(AN_flat(it[1]))
        elif it[0] == "alt":
            out.extend(AN_flat(it[2]))
            out.extend(AN_flat(it[3]))
    return out


def body(ck, F, cfg):
    _CUR_F[0] = F
    if _TIER == "thorough" and cfg == "default":
        from .. import witness

        witness.require(ck, ['W4'], "WITNESS")
    # R16.1 transition summaries, per method and per pending case
    for method in ("multiply", "allocate", "allocate_multiplier", "multipliers_len"):
        for pend_name, pend in (("pending=None", None), ("pending=Some(p)", p)):
            try:
                sp_ = summary(F, "prover", method, pend)
                sv_ = summary(F, "verifier", method, pend)
            except Unanalysable as u:
                ck.fail("R16.1", f"{method}:{pend_name}", f"unanalysable: {u.msg}", u.where, kind="unanalysable")
                continue
            ck.fn(sp_["R"]["path"])
            ck.fn(sv_["R"]["path"])
            same = all(sp_[k] == sv_[k] for k in ("ret", "count", "pending", "constraints"))
            ck.require(same, "R16.1", f"{method}:{pend_name}", f"prover and verifier transitions differ: prover {dict((k, sp_[k]) for k in ('ret','count','pending','constraints'))} verifier {dict((k, sv_[k]) for k in ('ret','count','pending','constraints'))}", detail=str({k: sp_[k] for k in ("ret", "count", "pending")}))
            ck.require(sp_["lockstep"], "R16.2", f"{method}:{pend_name}", "a_L, a_R, a_O must grow in lock-step (one gate count)")
            # reference transitions
            want = None
            if method in ("multiply", "allocate_multiplier"):
                tri = (("MultiplierLeft", "c"), ("MultiplierRight", "c"), ("MultiplierOutput", "c"))
                want = {"ret": tri if method == "multiply" else ("Ok", tri), "count": "1", "pending": ("None", None) if pend is None else ("Some", "p")}
            elif method == "allocate":
                want = {"ret": ("Ok", ("MultiplierLeft", "c")), "count": "1", "pending": ("Some", "c")} if pend is None else {"ret": ("Ok", ("MultiplierRight", "p")), "count": "0", "pending": ("None", None)}
            elif method == "multipliers_len":
                want = {"ret": ("int", "c"), "count": "0", "pending": ("None", None) if pend is None else ("Some", "p")}
            okr = all(sv_[k] == want[k] for k in want)
            ck.require(okr, "R16.1", f"reference:{method}:{pend_name}", f"transition differs from the reference: got {dict((k, sv_[k]) for k in want)}, reference {want}")
            if method == "multiply":
                ck.require(sp_["constraints"] == "2" and sv_["constraints"] == "2", "R16.1", f"multiply-constrains:{pend_name}", "multiply must add the two wire constraints left - l_var and right - r_var on both roles")
    multiply_constraint_rules(ck, F, "R16.1")
    ck.sample({"transition": "allocate, pending=None", "summary": str(summary(F, "verifier", "allocate", None)["ret"])})
    constrain_rules(ck, F, "R16.1")
    callbacks_rule(ck, F, "R16.4")
    registration_rule(ck, F, "R16.4")
    phase_separator_rule(ck, F, "R16.4")
    # R16.3 half-open gate on the prover
    R = run_method(F, "prover", "allocate", None)
    sec = R["state"].fields["secrets"].fields
    vals0 = [sec[k_].index(c) for k_ in ("a_L", "a_R", "a_O")]
    ok = all(isinstance(v_, Sc) for v_ in vals0) and eq(vals0[0].e, ssym("x")) and eq(vals0[1].e, 0) and eq(vals0[2].e, 0)
    ck.require(ok, "R16.3", "open-gate", f"first single allocation must push (x, 0, 0); got ({show(sec['a_L'].index(c))}, {show(sec['a_R'].index(c))}, {show(sec['a_O'].index(c))})")
    R = run_method(F, "prover", "allocate", p)
    sec = R["state"].fields["secrets"].fields
    bnd = R["I"].bounds
    vals = [sec[k_].index(p, bnd) for k_ in ("a_R", "a_O", "a_L")]
    ok = all(isinstance(v_, Sc) for v_ in vals) and eq(vals[0].e, ssym("x")) and eq(vals[1].e, sfun("aL")(p) * ssym("x")) and eq(vals[2].e, sfun("aL")(p))
    ck.require(ok, "R16.3", "close-gate", f"second single allocation must set a_R[p]=x, a_O[p]=a_L[p]*x; got a_R[p]={show(sec['a_R'].index(p, bnd))}, a_O[p]={show(sec['a_O'].index(p, bnd))}")
    # allocate_multiplier assigns (left, right, left*right) to the new gate in this order (mutation campaign 3: swapping the
    # destructured pair survived)
    R = run_method(F, "prover", "allocate_multiplier", None)
    sec = R["state"].fields["secrets"].fields
    try:
        vals = [sec[k_].index(c) for k_ in ("a_L", "a_R", "a_O")]
        ok = all(isinstance(v_, Sc) for v_ in vals) and eq(vals[0].e, ssym("xl")) and eq(vals[1].e, ssym("xr")) and eq(vals[2].e, ssym("xl") * ssym("xr"))
        got = f"({show(vals[0])}, {show(vals[1])}, {show(vals[2])})"
    except Unanalysable as u:
        ok, got = False, f"unanalysable: {u.msg}"
    ck.require(ok, "R16.3", "multiplier-gate", f"allocate_multiplier(Some((l, r))) must push (l, r, l*r) onto (a_L, a_R, a_O); got {got}")
    # R16.5 error before state: missing assignment
    for method in ("allocate", "allocate_multiplier"):
        for pend in (None, p):
            R = run_method(F, "prover", method, pend, args_kind="none")
            cl, _, _ = count_of("prover", R["state"])
            ok = isinstance(R["ret"], Enum) and R["ret"].variant == "Err" and "MissingAssignment" in repr(R["ret"]) and eq(cl, c) and pending_summary(R["state"]) == (("None", None) if pend is None else ("Some", "p"))
            ck.require(ok, "R16.5", f"missing-assignment:{method}:{'None' if pend is None else 'Some'}", f"without an assignment the prover must return MissingAssignment and leave the state untouched; got {R['ret']!r}, count delta {sp.expand(cl - c)}")
    for method in ("allocate", "allocate_multiplier"):
        R1 = run_method(F, "prover", method, None)
        errs = [repr(g[2]) for g in R1["guards"]]
        ck.require(len(errs) == 1 and "MissingAssignment" in errs[0], "R16.5", f"only-exit:{method}", f"the only error exit must be MissingAssignment; exits: {errs}")
        RV = run_method(F, "verifier", method, None)
        ck.require(not RV["guards"], "R16.5", f"verifier-no-exit:{method}", f"the verifier's {method} must not fail: {[repr(g[2]) for g in RV['guards']]}")
    # R16.4 phase switch clears the pending gate before any callback runs
    for role, prefix in (("prover", H.P_PRV), ("verifier", H.P_VER)):
        seen = []
        I = H.new_interp(F)

        def spy(I_, fval, args, e, env, seen=seen):
            w = I_.deref(args[0])
            inner = w.fields.get("verifier") or w.fields.get("prover")
            seen.append(inner.fields["pending_multiplier"])
            return H.havoc_callback(I_, fval, args, e, env)

        I.hooks["indirect"] = spy
        st = state(role, p)
        st.fields["deferred_constraints"] = Vec.atom("cb", isym("ncb"), mk=lambda e_: Opaque("callback", id=e_))
        ret = I.call_fn(prefix + "create_randomized_constraints", [st])
        ck.fn(prefix + "create_randomized_constraints")
        okc = bool(seen) and all(is_empty_pending(x, role) for x in seen)
        ck.require(okc, "R16.4", f"phase-switch:{role}", f"the pending gate must be cleared before the first randomized callback; callbacks saw {seen}")
        # also cleared when there are no callbacks (1-phase branch)
        I2 = H.new_interp(F)
        st2 = state(role, p)
        ret2 = I2.call_fn(prefix + "create_randomized_constraints", [st2])
        pm = st2.fields["pending_multiplier"]
        ck.require(is_empty_pending(pm, role), "R16.4", f"phase-switch-no-callbacks:{role}", f"the pending gate must also be cleared when there are no randomized callbacks; pending after the switch: {pm!r}")
    # R16.6 wrappers delegate 1:1
    n_del = 0
    for wp, inner in ((RPRV, "prover"), (RVER, "verifier")):
        for method in METHODS:
            try:
                okd, why = wrapper_delegates(F, wp, inner, method)
            except FX.AnchorMissing:
                okd, why = False, "method missing"
            n_del += 1
            ck.require(okd, "R16.6", f"delegate:{inner}:{method}", f"randomizing wrapper's {method} must delegate to the inner system with the same arguments: {why}")
    rcs = [i for i in F.items["impls"] if (i["trait"] or "").endswith("RandomizedConstraintSystem")]
    selfs = sorted(i["self_ty"].split("<")[0] for i in rcs)
    ck.require(selfs == ["r1cs::prover::RandomizingProver", "r1cs::verifier::RandomizingVerifier"], "R16.6", "challenge-only-in-randomized-phase", f"challenge_scalar must be available on the randomizing wrappers only; impls for {selfs}")
    commit_rules(ck, F)
    initial_state_rule(ck, F)
    wrapper_challenge_rule(ck, F)
    ck.floor("method transitions", len([o for o in ck.obligations if o[0] == "R16.1"]), 20)
    ck.floor("delegations", n_del, 12)


def run(tier):
    global _TIER
    _TIER = tier
    ck = run_configs(
        "C16", tier, LEVEL, body,
        explanation="TWIN: every constraint-system method of both roles is interpreted on a symbolic state (gate count c, pending gate None / Some(p), q constraints) and reduced to a "
        "transition summary (returned variable handles as terms in c and p, count delta, new pending, constraints added, error exits). Prover and verifier summaries must be identical "
        "and equal to the reference transitions; the prover's three wire vectors move in lock-step; a missing assignment fails before any state change; the phase switch clears the open gate "
        "before the first callback; the randomizing wrappers delegate 1:1.",
        rule_text="R16.1 transition summaries (finite case analysis on the pending tag); R16.2 lock-step; R16.3 half-open gate; R16.4 phase switch; R16.5 error before state; R16.6 delegation; R16.7 committed-variable handles (commit returns Committed(m) and stores exactly one more commitment, on every path); R16.8 fresh systems of both roles are empty",
        not_decided=[],
        assumptions=["call sequences are compositions of these transitions (the API exposes nothing else: fields private)"],
    )
    return ck.finish()


CLAIM = {
    "engine": "TWIN",
    "level": "other",
    "design_ref": "DESIGN.md section 4 C16",
    "technique": "static: abstract interpretation of each API method to a state-transition summary; sibling (prover/verifier) agreement and comparison with reference transitions",
    "text": "Since every call sequence is a composition of per-call transitions, identical transition summaries on symbolic states give identical handles and gate counts for all sequences (induction over the sequence).",
    "note": "trusted: none beyond the TERM engine; the induction step is elementary",
}

"""C18 -- wire stability: manifest of observable wire constants and reference formulas/schedule
against the frozen reference revision (the pinned tree)."""
import json
import os

from .. import analyses as AN
from .. import facts as FX
from .. import ipp
from .. import prover_ref as PR
from .. import schedule as SC
from .. import sched as S
from .. import spec_ref as REF
from .. import wire
from ..compare import compare_scalars
from . import C12, C13, C15, C16
from .common import run_configs

LEVEL = "other"
SPEC = os.path.join(FX.VERIF, "spec", "wire_manifest.json")


def body(ck, F, cfg):
    man = wire.extract_manifest(F)
    with open(SPEC) as f:
        ref = json.load(f)["manifest"]
    n_entries = 0
    for key in sorted(set(ref) | set(man)):
        a, b = man.get(key), ref.get(key)
        if isinstance(b, list) and isinstance(a, list) and key.startswith("schedule_symbols"):
            missing = [x for x in b if x not in a]
            extra = [x for x in a if x not in b]
            n_entries += len(b)
            ck.require(not missing and not extra, "R18.1", key, f"transcript symbols differ from the reference revision: missing {missing[:4]} new {extra[:4]}", detail=f"{len(b)} symbols")
        else:
            n_entries += len(b) if isinstance(b, list) else 1
            ck.require(a == b, "R18.1", key, f"wire constant `{key}` changed: now {a!r}, reference revision {b!r}")
    ck.extra["manifest_entries"] = n_entries
    ck.floor("manifest entries", n_entries, 105)
    ck.sample({k: man[k] for k in ("chain.labels", "chain.hashed_parts", "challenge.prg", "codec.from_bytes") if k in man})
    # R18.2 reference schedule and formulas (a change applied consistently to both roles still differs from these)
    refs = SC.reference_schedule()
    rv, _ = SC.verifier_schedule(F)
    rp, _ = SC.prover_schedule(F)
    for name, r in (("verifier", rv), ("prover", rp)):
        eqv, w = S.equivalent(r, refs)
        ck.require(eqv, "R18.2", f"schedule:{name}", f"{name} transcript schedule differs from the reference schedule at [... {' '.join(S.show_regex(('sym', s)) for s in (w[0][-3:] if w else ()))}]")
    A = AN.verifier_scalars(F)
    pad = REF.pad_of(REF.n1 + REF.n2)
    compare_scalars(ck, "R18.2", A["scalars"], REF.combined(pad), A["I"].bounds, proportional=True, where="verifier combined-check scalars", prefix="verifier:")
    pv = PR.check_commitments(ck, F, rule="R18.2")
    PR.check_ipp_args(ck, F, pv, rule="R18.2")
    PR.check_t(ck, F, pv, rule="R18.2")
    ipp.check_create(ck, F)
    ipp.check_create_n1(ck, F)
    ipp.check_vs(ck, F, "R18.2")
    C12.body(ck, F, cfg)
    C13.body(ck, F, cfg)
    # the circuit a statement denotes is part of what a recorded proof was made for: the variable/gate numbering of the
    # allocation methods (C16's reference transitions) and the denotation of the expression operators (C15) are frozen too --
    # a change made consistently in both roles keeps new proofs verifying but rejects the recorded ones
    C16.body(ck, F, cfg)
    C15.body(ck, F, cfg, parts=("ops", "eval"))


def run(tier):
    ck = run_configs(
        "C18", tier, LEVEL, body,
        explanation="WIRE: the manifest of observable wire constants -- every transcript symbol (operation, label, constant or payload role) of both roles with the schedules' regular expressions, "
        "the clone operations, RNG rekey label, challenge derivation (PRG type, 32 seed bytes, one draw), transcript encodings, generator-chain hash/domain/labels/PRG, Pedersen base derivation, "
        "proof field order and types, codec entry points and derive provenance -- is extracted from the program and compared entry by entry with spec/wire_manifest.json, frozen from the pinned "
        "reference revision. The reference schedule and reference formulas of C01/C02/C10/C12/C13 are re-evaluated: a change applied consistently to prover and verifier still differs from them.",
        rule_text="R18.1 manifest equality (each entry is a wire constant: a difference changes bytes on the wire or derived challenges/generators); R18.2 reference schedule and formulas; C16 and C15 rules by reference (variable numbering and expression denotation of the reference revision)",
        not_decided=["acceptance/rejection of recorded proof bytes and bit-for-bit generator values (need execution; no fixtures are used)"],
        assumptions=["the pinned tree is the reference revision"],
    )
    return ck.finish()


CLAIM = {
    "engine": "WIRE+TERM+SCHED",
    "level": "other",
    "design_ref": "DESIGN.md section 4 C18",
    "technique": "static: extraction of a wire manifest (labels, separators, hash/PRG types, layouts, codecs) and comparison with a frozen reference; re-evaluation of reference schedule and formulas",
    "text": "Any two-sided change that alters what is absorbed, how challenges or generators are derived, what is proved, how variables and gates are numbered or what an expression denotes (C16/C15 rules by reference), or the encoding layout differs from the frozen manifest or the reference formulas, although the tree stays self-consistent.",
    "note": "trusted: the frozen manifest was produced from the pinned tree and reviewed (spec/wire_manifest.json)",
}

"""C05 -- statement and context binding."""
import sympy as sp

from .. import analyses as AN
from .. import facts as FX
from .. import flatten
from .. import harness as H
from .. import prover_ref as PR
from .. import schedule as SC
from .. import sched as S
from .. import spec_ref as REF
from ..alg import Enum, IntV, Pt, Sc, eq, isym, pt_eq, ssym
from ..compare import compare_bases, compare_scalars
from ..interp import Tr
from .common import run_configs

LEVEL = "other"


def body(ck, F, cfg):
    # "a changed coefficient or constant in a constraint" must change the statement: the arithmetic that builds the
    # constraint from the user's expression must keep every coefficient (C15's R15.1 operator rules by reference)
    from . import C15

    C15.body(ck, F, cfg, parts=("ops",))
    ref = SC.reference_schedule()
    rv, pv_ = SC.verifier_schedule(F)
    rp, pp_ = SC.prover_schedule(F)
    for p in (H.P_VER + "new", H.P_VER + "commit", H.P_PRV + "new", H.P_PRV + "commit"):
        ck.fn(p)
    # R05.1 schedule facts
    for name, parts, r in (("verifier", pv_, rv), ("prover", pp_, rp)):
        ck.require(parts["new"] == SC.sym_msg("dom-sep", "r1cs v1"), "R05.1", f"{name}:separator-first", f"the constructor must absorb `r1cs v1` on the caller's transcript and nothing else; schedule `{S.show_regex(parts['new'])}`")
        ck.require(parts["commit"] == SC.sym_pt("V", "V[*]"), "R05.1", f"{name}:commit-absorbs-V", f"commit must absorb the commitment itself, unconditionally, with label V; schedule `{S.show_regex(parts['commit'])}`")
        eqv, w = S.equivalent(r, ref)
        ck.require(eqv, "R05.1", f"{name}:m-and-separators", "count m (u64, label m) before the first proof element, phase separator after S1, user data on the main transcript: the role schedule must equal the reference schedule (see C06 for the divergence point)")
    nv = SC.run_new_commit(F, "verifier")
    retv = nv["ret"]
    m = isym("m")
    okv = isinstance(retv, Enum) and retv.variant == "Committed" and eq(retv.payload[0].e, m)
    Vst = nv["obj"].fields["V"]
    okv = okv and eq(Vst.length(), m + 1) and pt_eq(Vst.index(m), Pt.atom(ssym("V_new")))
    ck.require(okv, "R05.1", "verifier:commit-stores", f"Verifier::commit must store the commitment at the index it returns; returned {retv!r}", "src/r1cs/verifier.rs")
    for name, nc in (("verifier", nv), ("prover", SC.run_new_commit(F, "prover"))):
        tr = nc["obj"].fields["transcript"]
        ck.require(isinstance(tr, Tr) and tr is nc["tr"], "R05.1", f"{name}:callers-transcript", "the system must keep and use the caller's transcript value")
    # user holes are on the main transcript
    for name, I in (("verifier", AN.verifier_scalars(F)["I"]), ("prover", AN.prover_run(F)["I"])):
        users = [it for it, ctx in AN.flat_trace(I.trace.items) if it[0] == "user"]
        main_tr = (AN.verifier_scalars(F)["ver"] if name == "verifier" else AN.prover_run(F)["prover"]).fields["transcript"]
        okm = bool(users) and all(u[1]["tr"] is main_tr and u[1].get("tr_challenge", main_tr) is main_tr for u in users)
        ck.require(okm, "R05.1", f"{name}:user-on-main", f"inside randomized callbacks cs.transcript() and cs.challenge_scalar() must act on the system's main transcript (so application data appended there is bound); they act on {[(repr(u[1]['tr']), repr(u[1].get('tr_challenge'))) for u in users]}")
    # R05.2 V_j weighted by wV_j * r * x^2 ; Committed arm of the verifier's flatten
    A = AN.verifier_scalars(F)
    pad = REF.pad_of(REF.n1 + REF.n2)
    refseg = REF.combined(pad)
    only = [s for s in refseg if s[0] in ("B", "V")]
    # compare B (anchor for the common factor) and V on the real vector by slicing
    scal = A["scalars"]
    names = [s[0] for s in refseg]
    off = sp.Integer(0)
    for (nm, n, f) in refseg:
        if nm == "V":
            break
        off = sp.expand(off + sp.sympify(n))
    j = isym("_j")
    bnd = A["I"].bounds.with_ub(j, REF.m)
    act = scal.index(off + j, bnd)
    act0 = scal.index(sp.Integer(0), A["I"].bounds)
    ok = isinstance(act, Sc) and eq(act.e * refseg[0][2](0), (REF.wV(j) * REF.R * REF.X**2) * act0.e)
    ck.require(ok, "R05.2", "V-scalar", f"each commitment V_j must carry wV_j * r * x^2 in the combined check; extracted {act!r}", "src/r1cs/verifier.rs")
    SV = flatten.check(ck, F, "verifier", "R05.2")
    # R05.3 provenance of bases
    V = AN.verify_full(F)
    msms = list(V["I"].msm_log)  # whole dynamic extent of the verify run
    if len(msms) == 1:
        compare_bases(ck, "R05.3", msms[0]["bases"], [s for s in REF.base_layout(pad)], V["I"].bounds, "src/r1cs/verifier.rs", prefix="verify:")
    else:
        ck.fail("R05.3", "verify:single-msm", "no single combined check")
    pview = PR.check_commitments(ck, F, rule="R05.3")
    q = pview.ipp["Q"] if pview.ipp else None
    ck.require(isinstance(q, Pt) and pt_eq(q, Pt.atom(ssym("B")).scale(REF.W)), "R05.3", "prover:Q-on-caller-B", f"Q must be w times the value base of the constructor's pc_gens; {q!r}")
    # who-may-call: PedersenGens::default() is not used inside the crate's proving/verifying code
    dflt = "<generators::PedersenGens<G> as std::default::Default>::default"
    F.fn(dflt)  # positive control: the definition exists
    callers = []
    for p, fn in F.fns.items():
        for n in FX.walk(fn["body"]):
            ci = FX.callee_info(n)
            if (ci.get("resolved") or "") == dflt or ((ci.get("path") or "").endswith("Default::default") and "PedersenGens" in " ".join(ci.get("gargs") or [])):
                callers.append(p)
    ck.require(not callers, "R05.3", "no-default-gens", f"library code must use the caller's bases, never PedersenGens::default(): {callers}")
    ck.floor("schedule facts", len([o for o in ck.obligations if o[0] == "R05.1"]), 11)


def run(tier):
    ck = run_configs(
        "C05", tier, LEVEL, body,
        explanation="SCHED: both commit functions absorb exactly the commitment (label V) unconditionally; the count m, `r1cs v1` first on the caller's transcript, the phase "
        "separator and the USER holes sit where the reference schedule puts them. TERM: each V_j is a base of the combined check with scalar wV_j*r*x^2 (wV from the Committed arm of the "
        "verifier's flatten, constants from the One arm); the bases of the check are the caller's pc_gens fields and party-0 generators; the prover's Q and blinding terms use the constructor's pc_gens.",
        rule_text="R05.1 schedule facts; R05.2 commitment weights; R05.3 base provenance, who-may-call PedersenGens::default (zero expected, definition as positive control)",
        not_decided=["verdict under each concrete deviation of the statement (needs execution)"],
        assumptions=["binding of Pedersen commitments (discrete log)"],
    )
    return ck.finish()


CLAIM = {
    "engine": "SCHED+TERM",
    "level": "other",
    "design_ref": "DESIGN.md section 4 C05",
    "technique": "static: transcript-schedule facts on extracted regular expressions; symbolic weights of commitments; base provenance by term identity",
    "text": "Decides that every statement component is bound: commitments and their count are absorbed, commitments and constants are weighted in the check, separators and user data are on the caller's transcript, and the bases are the caller's; the operators that build a constraint from the caller's expression keep every coefficient (C15 R15.1 by reference).",
    "note": "trusted: Merlin; soundness of the reference equation",
}

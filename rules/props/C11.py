"""C11 -- proof encoding: derives, layout, validated codec entry points (structure)."""
import sympy as sp

from .. import analyses as AN
from .. import facts as FX
from .. import harness as H
from .. import spec_ref as REF
from .. import wire
from ..alg import Cond, eq, sfun
from .common import run_configs

LEVEL = "other"


def codec_impls(F, adt_prefix):
    out = {}
    for i in F.items["impls"]:
        if i["self_ty"].startswith(adt_prefix) and (i["trait"] or "").startswith("ark_serialize::"):
            out.setdefault(i["trait"], []).append(i["expn"])
    return out


def body(ck, F, cfg):
    # R11.1 derived codec impls only
    for adt in ("r1cs::proof::R1CSProof", "inner_product_proof::InnerProductProof"):
        imps = codec_impls(F, adt)
        for tr, derive in (("ark_serialize::CanonicalSerialize", "Derive:CanonicalSerialize"), ("ark_serialize::CanonicalDeserialize", "Derive:CanonicalDeserialize"), ("ark_serialize::Valid", "Derive:CanonicalDeserialize")):
            got = imps.get(tr, [])
            ck.require(got == [derive], "R11.1", f"{adt.split('::')[-1]}:{tr.split('::')[-1]}", f"{adt} must have exactly one impl of {tr}, produced by the ark-serialize derive (validated, field by field); found {got or 'none'} (None = hand-written)")
    # R11.2 field order and types
    got = [(n, t) for n, t, _ in wire.struct_fields(F, "r1cs::proof::R1CSProof")]
    ck.require(got == wire.PROOF_FIELDS, "R11.2", "R1CSProof:layout", f"field order/types of R1CSProof differ from the encoding layout: {got}")
    got = [(n, t) for n, t, _ in wire.struct_fields(F, "inner_product_proof::InnerProductProof")]
    ck.require(got == wire.IPP_FIELDS, "R11.2", "InnerProductProof:layout", f"field order/types of InnerProductProof differ from the encoding layout (L list, R list, a, b): {got}")
    allf = wire.PROOF_FIELDS[:-1] + wire.IPP_FIELDS
    pts = sum(1 for _, t in allf if t == "$T")
    scs = sum(1 for _, t in allf if "ScalarField" in t)
    vecs = sum(1 for _, t in allf if t.startswith("std::vec::Vec<$T>"))
    ck.require((pts, scs, vecs) == (11, 5, 2), "R11.2", "size-law-shape", f"size law 11 points + 5 scalars + 2 counted point lists is read off the types; found {(pts, scs, vecs)}")
    ck.sample({"layout": [n for n, _ in allf], "points": pts, "scalars": scs, "lists": vecs})
    # k = log2(padded gate count): the list length the verifier accepts, and the prover's round count
    A = AN.verifier_scalars(F)
    N = REF.n1 + REF.n2 + REF.pad_of(REF.n1 + REF.n2)
    lg = sp.Symbol("lg", integer=True, nonnegative=True)
    gs = [it for it, ctx in AN.flat_trace(A["I"].trace.items) if it[0] == "guard" and isinstance(it[1], Cond) and it[1].op == "eq" and it[1].neg]
    okk = any({str(sp.expand(g[1].a)), str(sp.expand(g[1].b))} == {str(sp.expand(N)), str(sfun("pow2")(lg))} for g in gs)
    ck.require(okk, "R11.2", "k=log2(padded-gates)", f"the number of (L,R) pairs must satisfy 2^k = next_power_of_two(gate count) exactly (guard n == 1<<lg_n with n = {N})")
    oke = any({str(sp.expand(g[1].a)), str(sp.expand(g[1].b))} == {"lg", "lgR"} for g in gs)
    ck.require(oke, "R11.2", "equal-list-lengths", "both lists must have k entries (guard len(R_vec) == len(L_vec))")
    # R11.3 / R11.4 entry points
    wire.check_encode(ck, F, "R11.3")
    wire.check_decode(ck, F, "R11.3")
    # who-may-call: unchecked / uncompressed codecs are not used for proofs (zero expected) ; positive control: transcript encodings
    bad = []
    ctrl = 0
    for p, fn in F.fns.items():
        if fn.get("expn"):
            continue
        for n in FX.walk(fn["body"]):
            cp = FX.callee_info(n).get("path") or ""
            if "ark_serialize::" not in cp:
                continue
            last = cp.split("::")[-1]
            if last == "serialize_uncompressed" and not ("r1cs::proof" in p or "inner_product_proof" in p):
                # positive control: the matcher sees the (legitimate) uncompressed encodings used for hashing, wherever the helper lives
                ctrl += 1
            if "unchecked" in last or (last.endswith("_uncompressed") and ("r1cs::proof" in p or "inner_product_proof" in p)):
                bad.append((p, last))
    ck.require(not bad, "R11.3", "no-unchecked-codec", f"unchecked / uncompressed (de)serialisation used on proof paths: {bad}")
    ck.floor("positive control: uncompressed transcript encodings", ctrl, 1)  # the matcher must see at least one (3 on the reviewed tree)
    ck.floor("leaf fields", len(allf), 18)


def run(tier):
    ck = run_configs(
        "C11", tier, LEVEL, body,
        explanation="WIRE: both proof types carry exactly the derived CanonicalSerialize/CanonicalDeserialize/Valid impls (a hand-written impl is reported); field order and types equal the layout "
        "(11 points, 3 scalars, list L, list R, 2 scalars), from which the size law's shape follows (each Vec contributes an 8-byte count in ark-serialize); k is tied to the padded gate count by the "
        "verifier's shape guards; to_bytes is one serialize_compressed of self into a fresh buffer, from_bytes one deserialize_compressed (validated) with every failure mapped to FormatError; "
        "no unchecked/uncompressed codec is used for proofs.",
        rule_text="R11.1 derives; R11.2 layout, size-law shape, k; R11.3 codec entry points; R11.4 determinism (to_bytes reads only self)",
        not_decided=["prefix rejection, canonical-scalar and subgroup rejection (behaviour of ark-serialize / ark-ec under Validate::Yes, pinned dependency)", "round-trip equality as a runtime fact"],
        assumptions=["ark-serialize 0.4.2 derive encodes fields in declaration order; Vec<T> = u64 length + elements"],
    )
    return ck.finish()


CLAIM = {
    "engine": "WIRE",
    "level": "other",
    "design_ref": "DESIGN.md section 4 C11",
    "technique": "static: item/impl inventory (derive provenance), type-level layout comparison, codec who-may-call, symbolic shape of to_bytes/from_bytes",
    "text": "Decides the structural preconditions of the encoding law: derived validated codec, field order/types, k tied to the padded size, compressed+validated entry points with uniform error mapping.",
    "note": "trusted: ark-serialize derive and Validate::Yes semantics at the pinned version",
}

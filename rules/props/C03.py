"""C03 -- the single combined check equals the unbatched relations (structure)."""
import sympy as sp

from .. import analyses as AN
from .. import facts as FX
from .. import ipp
from .. import spec_ref as REF
from ..alg import Cond, Enum, Pt, Sc, Unanalysable, eq, isym
from ..compare import compare_bases, compare_scalars
from . import C02, C06
from .common import run_configs

LEVEL = "other"
MANDATORY = {"pf.A_I1", "pf.A_O1", "pf.S1", "pf.T_1", "pf.T_3", "pf.T_4", "pf.T_5", "pf.T_6", "pf.L[*]", "pf.R[*]"}
PLAIN = {"pf.A_I2", "pf.A_O2", "pf.S2"}


def coeffs_in_r(e):
    e = sp.expand(e)
    c0 = e.subs(REF.R, 0)
    c1 = sp.expand(sp.diff(e, REF.R)).subs(REF.R, 0)
    rest = sp.expand(e - c0 - REF.R * c1)
    return sp.expand(c0), sp.expand(c1), rest


def body(ck, F, cfg):
    V = AN.verify_full(F)
    I = V["I"]
    ck.fn(AN.H.P_VER + "verify_and_return_transcript")
    ck.fn(AN.H.P_VER + "verification_scalars")
    pad = REF.pad_of(REF.n1 + REF.n2)
    where = "src/r1cs/verifier.rs (verify_and_return_transcript)"
    msms = list(I.msm_log)  # the run interprets verify_and_return_transcript only: its whole dynamic extent counts (the check may live in a helper)
    if len(msms) != 1:
        ck.fail("R03.1", "single-msm", f"expected exactly one multiscalar check, found {len(msms)}", where)
        return
    m = msms[0]
    # R03.1 layout: bases in reference order, scalars aligned
    compare_bases(ck, "R03.1", m["bases"], REF.base_layout(pad), I.bounds, where, prefix="base:")
    ck.require(m["equal"], "R03.1", "lengths-equal", f"base list has length {m['len_bases']}, scalar list {m['len_scalars']}: the multiscalar check is misaligned (and its unwrap can panic)", m["where"])
    scal = m["scalars"]
    # R03.2 decomposition in the atom r
    P, T = REF.rel_P(pad), REF.rel_T(pad)
    j = isym("_j")
    act0 = scal.index(sp.Integer(0), I.bounds).e
    a0_0, a0_1, a0_r = coeffs_in_r(act0)
    p0 = sp.sympify(P[0][2](0))
    off = sp.Integer(0)
    for (name, n, fp), (_, _, ft) in zip(P, T):
        n = sp.sympify(n)
        try:
            part = scal.slice(off, sp.expand(off + n), I.bounds)
            good, why = True, ""
            so = sp.Integer(0)
            for sub in part.nonempty_segs():
                a = sub.f(j)
                if not isinstance(a, Sc):
                    good, why = False, f"scalar is conditional / not a ring term: {a!r}"
                    break
                c0, c1, rest = coeffs_in_r(a.e)
                if rest != 0:
                    good, why = False, f"scalar is not affine in r: remainder {rest}"
                    break
                if not eq(c0 * p0, sp.sympify(fp(so + j)) * a0_0):
                    good, why = False, f"r^0 coefficient `{c0}` is not the opening-relation scalar `{sp.expand(sp.sympify(fp(so + j)))}`"
                    break
                if not eq(c1 * p0, sp.sympify(ft(so + j)) * a0_0):
                    good, why = False, f"r^1 coefficient `{c1}` is not the evaluation-relation scalar `{sp.expand(sp.sympify(ft(so + j)))}`"
                    break
                so = sp.expand(so + sub.n)
            ck.require(good, "R03.2", f"decompose:{name}", f"segment {name}: {why}", where)
        except Unanalysable as u:
            ck.fail("R03.2", f"decompose:{name}", f"segment cannot be aligned: {u.msg}", where, kind="unanalysable")
        off = sp.expand(off + n)
    # relation (b)'s weights wL, wR, wO, wV, wc are the z-flattened constraints (z^(q+1) per constraint)
    from .. import flatten

    flatten.check(ck, F, "verifier", "R03.2")
    # r: squeezed from a clone forked after everything was absorbed (shared with C06 R06.7)
    side = C06.clone_side_table(I)
    okc = len(side["forks"]) == 1 and [(k, l) for k, l, _ in side["clone_ops"]] == [("challenge_bytes", b"r")] and not side["main_ops_after_fork"]
    ck.require(okc, "R03.2", "r-provenance", f"the weight r must be squeezed from a transcript clone taken after all proof elements were absorbed: clone_ops={side['clone_ops']} absorbed-after-fork={side['main_ops_after_fork']}", where)
    # R03.3 mandatory points: identity guard directly before the append of the same point
    guarded, plain = AN.validated_sets(I)
    ck.require(guarded == MANDATORY, "R03.3", "validated-set", f"points absorbed through the identity-rejecting append: {sorted(guarded)}; reference: {sorted(MANDATORY)}", where)
    ck.require(plain == PLAIN, "R03.3", "plain-set", f"points absorbed without identity check: {sorted(plain)}; reference: {sorted(PLAIN)}", where)
    # R03.4 orientation of s and its recurrence
    VS = ipp.check_vs(ck, F, "R03.4")
    for name, okk in VS["guards_found"].items():
        ck.require(okk, "R03.4", f"rounds-match-size:{name}", f"relation (c) folds exactly log2(n) rounds: the verifier must reject any other number of (L,R) pairs (guard `{name}` missing)", "src/inner_product_proof.rs")
    C02.verdict_rule(ck, F, "R03.5")
    # batch verification is verification too: its combined check must be the same relations, instance by instance
    # (C07's rules by reference)
    from . import C07

    C07.body(ck, F, cfg)
    ck.floor("layout segments", len([o for o in ck.obligations if o[0] == "R03.1" and o[1].startswith("base:")]), 22)


def run(tier):
    ck = run_configs(
        "C03", tier, LEVEL, body,
        explanation="TERM: base list and scalar list of the combined multiscalar check are extracted from verify_and_return_transcript "
        "(verification_scalars inlined) and compared segment by segment with the reference layout; every scalar is split into its r^0 and r^1 "
        "coefficients, which must be the inner-product opening relation (c) and the evaluation relation (b) respectively, with nothing else; "
        "r must come from a transcript clone forked after all proof elements; the set of identity-checked points is read off the guards.",
        rule_text="R03.1 layout; R03.2 decomposition in r and r-provenance; R03.3 mandatory point set; R03.4 s recurrence; R03.5 verdict sink",
        not_decided=["'accepts exactly when' beyond negligible probability over r (Schwartz-Zippel, trusted)", "round-by-round folding equals the s-vector form (theorem about s)"],
        assumptions=["reference relations in rules/spec_ref.py"],
    )
    return ck.finish()


CLAIM = {
    "engine": "TERM+SCHED",
    "level": "other",
    "design_ref": "DESIGN.md section 4 C03",
    "technique": "static: symbolic extraction of bases and scalars of the combined check; coefficient decomposition in the batching weight; guard-set extraction",
    "text": "Decides the structural half of the equivalence: one aligned base/scalar list, whose scalars are exactly opening-relation + r * evaluation-relation, "
    "with the reference mandatory-point set and verdict = is_zero of that one sum; batch verification is held to the same base/scalar alignment (C07 rules by reference).",
    "note": "trusted: random-weight argument for combining two relations; reference relations",
}

"""C17 -- generator capacity threshold: guard form, position, capacity independence."""
import sympy as sp

from .. import analyses as AN
from .. import facts as FX
from .. import harness as H
from .. import spec_ref as REF
from ..alg import Bytes, Cond, Enum, IntV, Ite, Pt, Sc, Val, Vec, eq, isym
from ..prover_ref import exprs_of
from . import C07
from .common import run_configs

LEVEL = "other"
cap = isym("cap")
GH = ("generators::BulletproofGensShare::<'a, G>::G", "generators::BulletproofGensShare::<'a, G>::H")


def cap_guards(flat, fn_suffix):
    out = []
    for idx, (it, ctx) in enumerate(flat):
        # any function of the run's dynamic extent: the comparison may live in a `check_gens_capacity(..)?` helper
        if it[0] == "guard" and isinstance(it[1], Cond) and (sp.sympify(it[1].a if it[1].a is not None else 0).has(cap) or sp.sympify(it[1].b if it[1].b is not None else 0).has(cap)):
            out.append((idx, it))
    return out


def is_ref_guard(it, N):
    c = it[1]
    return c.op == "lt" and not c.neg and eq(c.a, cap) and eq(c.b, N) and isinstance(it[2], Enum) and it[2].variant == "Err" and "InvalidGeneratorsLength" in repr(it[2])


def gens_uses(flat):
    out = []
    for idx, (it, ctx) in enumerate(flat):
        if it[0] == "callmark" and it[1]["path"] in GH:
            n = it[1]["args"][1] if len(it[1]["args"]) > 1 else None
            out.append((idx, it[1]["path"].split("::")[-1], n.e if isinstance(n, IntV) else None, it[1]["where"]))
    return out


def mentions_cap(v):
    try:
        for e in exprs_of(v):
            if sp.sympify(e).has(cap):
                return True
    except Exception:
        pass
    return False


def body(ck, F, cfg):
    n1, n2 = REF.n1, REF.n2
    N = n1 + n2 + REF.pad_of(n1 + n2)
    # ---- prover
    P = AN.prover_run(F)
    ck.fn(H.P_PRV + "prove_and_return_transcript")
    flat = AN.flat_trace(P["I"].trace.items)
    gs = cap_guards(flat, "prove_and_return_transcript")
    ok1 = [g for g in gs if is_ref_guard(g[1], n1)]
    ok2 = [g for g in gs if is_ref_guard(g[1], N)]
    ck.require(len(ok1) == 1, "R17.1", "prover:guard-first-phase", f"prover needs `gens_capacity < n1 -> Err(InvalidGeneratorsLength)` before committing the first phase; capacity guards found: {[str(g[1][1]) + ' -> ' + repr(g[1][2]) for g in gs]}", "src/r1cs/prover.rs")
    ck.require(len(ok2) == 1, "R17.1", "prover:guard-padded", f"prover needs `gens_capacity < next_power_of_two(total gates) -> Err(InvalidGeneratorsLength)` after the randomized phase (strict <, N = {N}); capacity guards found: {[str(g[1][1]) + ' -> ' + repr(g[1][2]) for g in gs]}", "src/r1cs/prover.rs")
    ck.require(len(gs) == 2, "R17.1", "prover:no-other-capacity-exit", f"exactly two capacity guards expected, found {[str(g[1][1]) for g in gs]}")
    uses = gens_uses(flat)
    if ok1 and ok2:
        p1, p2 = ok1[0][0], ok2[0][0]
        bad = []
        for idx, nm, n, where in uses:
            need = p1 if (n is not None and eq(n, n1)) else p2
            if idx < need:
                bad.append((nm, str(n), where))
        ck.require(not bad, "R17.1", "prover:guards-dominate-uses", f"generator views taken before the capacity guard that covers them: {bad}")
        users_before = [it for idx, (it, ctx) in enumerate(flat) if idx < p2 and idx > p1 and it[0] == "user"]
        ck.require(bool(users_before), "R17.1", "prover:second-guard-after-randomized-phase", "the padded-size guard must be evaluated on the gate count after the randomized callbacks")
    ck.floor("prover generator uses", len(uses), 4)  # 12 on the reviewed tree
    # ---- verifier
    A = AN.verify_full(F)
    ck.fn(H.P_VER + "verification_scalars")
    vflat = AN.flat_trace(A["I"].trace.items)
    vgs = cap_guards(vflat, "verification_scalars")
    vok = [g for g in vgs if is_ref_guard(g[1], N)]
    ck.require(len(vok) == 1 and len(vgs) == 1, "R17.1", "verifier:guard-padded", f"verifier needs exactly `gens_capacity < N -> Err(InvalidGeneratorsLength)` (strict <, N = {N}); capacity guards found: {[str(g[1][1]) + ' -> ' + repr(g[1][2]) for g in vgs]}", "src/r1cs/verifier.rs")
    vuses = gens_uses(vflat)
    if vok:
        pv = vok[0][0]
        ck.require(all(idx > pv for idx, *_ in vuses) and len(vuses) == 2, "R17.1", "verifier:guard-dominates-uses", f"verify must take G(N)/H(N) only after verification_scalars passed the capacity guard; uses: {[(u[1], str(u[2])) for u in vuses]}")
        users_before = [it for idx, (it, ctx) in enumerate(vflat) if idx < pv and it[0] == "user"]
        ck.require(bool(users_before), "R17.1", "verifier:guard-after-randomized-phase", "the guard must use the gate count after the randomized callbacks")
        # R17.2: nothing capacity-dependent can fail before the guard
        early = [it for idx, (it, ctx) in enumerate(vflat) if idx < pv and it[0] == "callmark"]
        ck.require(not [e for e in early if e[1]["path"] in GH], "R17.2", "verifier:no-earlier-use", "generators are touched before the capacity guard")
    # batch: every instance passes through verification_scalars (C07 R07.4) and G(M)/H(M) with M = max N_k <= cap
    B = C07.analyse(F)
    bflat = AN.flat_trace(B["I"].trace.items)
    buses = gens_uses(bflat)
    M = B.get("M")
    ck.require(M is not None and len(buses) == 2 and all(u[2] is not None and eq(u[2], M) for u in buses), "R17.1", "batch:uses-max-padded", f"batch_verify must take exactly G(M), H(M) with M the maximum padded size of instances that passed their capacity guard; uses {[(u[1], str(u[2])) for u in buses]}")
    # R17.3 capacity independence: no sink, no transcript payload mentions the capacity
    leaks = []
    for name, v in P["proof"].fields.items():
        if name != "ipp_proof" and mentions_cap(v):
            leaks.append("proof." + name)
    for c in P["I"].ipp_create_calls:
        for k in ("Q", "G_factors", "H_factors", "a_vec", "b_vec", "G_vec", "H_vec"):
            if isinstance(c[k], Val) and mentions_cap(c[k]):
                leaks.append("ipp." + k)
    if mentions_cap(AN.verifier_scalars(F)["scalars"]):
        leaks.append("verifier.scalars")
    for role, fl in (("prover", flat), ("verifier", vflat)):
        for it, ctx in fl:
            if it[0] == "op":
                pl = it[1].get("payload")
                vals = [pl] if isinstance(pl, (Sc, Pt, IntV)) else [x[1] for x in pl.parts if len(x) > 1 and isinstance(x[1], Val)] if isinstance(pl, Bytes) else []
                for v in vals:
                    if (isinstance(v, IntV) and sp.sympify(v.e).has(cap)) or mentions_cap(v):
                        leaks.append(f"{role}.transcript[{(it[1]['label'] or b'?').decode(errors='replace')}]")
    ck.require(not leaks, "R17.3", "capacity-independence", f"proof content / verdict inputs depend on the generator capacity: {sorted(set(leaks))}")
    # bp_gens is only read as gens_capacity / share(0) / prefix views: generator atoms used are exactly the first N of party 0
    ck.sample({"prover_guards": [str(g[1][1]) for g in gs], "verifier_guards": [str(g[1][1]) for g in vgs], "uses": [(u[1], str(u[2])) for u in uses]})
    ck.floor("capacity guards", len(ok1) + len(ok2) + len(vok), 3)
    ck.floor("generator uses", len(uses) + len(vuses) + len(buses), 6)  # 16 on the reviewed tree


def run(tier):
    ck = run_configs(
        "C17", tier, LEVEL, body,
        explanation="The capacity guards are read from the TERM guard trace as normalised predicates: `gens_capacity < n1` before the first-phase commitments and "
        "`gens_capacity < N` (N = next_power_of_two of the gate count after the randomized phase, the std function applied to the count itself so 0 gates give 1) on both roles, "
        "strict, with exactly the InvalidGeneratorsLength error. Every generator view (G(k)/H(k), marked as call events in the trace) comes after the guard that covers it -- "
        "and the interpreter can only take a k-prefix of the capacity-long table when k <= capacity follows from a passed guard, so a dropped or late guard is also unanalysable. "
        "No sink and no transcript payload mentions the capacity.",
        rule_text="R17.1 guard predicate/operands/error/position; R17.2 no earlier capacity-dependent use; R17.3 capacity independence of sinks and schedule; R17.4 N = next_power_of_two(count) as term",
        not_decided=[],
        assumptions=["usize::next_power_of_two maps 0 to 1 (std)"],
    )
    return ck.finish()


CLAIM = {
    "engine": "PANIC(guards)+TERM",
    "level": "other",
    "design_ref": "DESIGN.md section 4 C17",
    "technique": "static: guard predicates and their position relative to generator uses on the extracted trace; capacity-freeness of sink terms",
    "text": "Decides the exact threshold (strict comparison of capacity with the padded final gate count, clean error) on both roles and batch, that the guards precede every generator use, and that nothing the proof or verdict depends on mentions the capacity.",
    "note": "trusted: std next_power_of_two semantics",
}

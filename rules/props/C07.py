"""C07 -- batch verification: fresh per-instance weight, applied to every term, aligned accumulation."""
import sympy as sp

from .. import analyses as AN
from .. import facts as FX
from .. import harness as H
from .. import spec_ref as REF
from ..alg import Bounds, Cond, Enum, IntV, Ite, Opaque, Pt, Sc, Seg, Struct, Tup, Unanalysable, Vec, eq, fresh, isym, le, pt_eq, sfun, show, ssym, vec_eq
from ..interp import UNIT, RngV, Tr, subst_val
from .common import run_configs

LEVEL = "other"
P_BATCH = "r1cs::verifier::batch_verify"


def inst_N(k):
    nv = sfun("nv")(k)
    return nv + sfun("pad")(nv)


def mk_instance(k):
    """the k-th (verifier, proof) pair with k-indexed atoms"""
    mv, lgk = sfun("mv")(k), sfun("lgk")(k)

    def P(name):
        return Pt.atom(sfun("bp." + name)(k))

    f = {n: P(n) for n in ("A_I1", "A_O1", "S1", "A_I2", "A_O2", "S2", "T_1", "T_3", "T_4", "T_5", "T_6")}
    for n in ("t_x", "t_x_blinding", "e_blinding"):
        f[n] = Sc(sfun("bp." + n)(k))
    f["ipp_proof"] = Struct(
        "inner_product_proof::InnerProductProof",
        {
            "L_vec": Vec([Seg(lgk, lambda i: Pt.atom(sfun("bp.L")(k, i)))]),
            "R_vec": Vec([Seg(lgk, lambda i: Pt.atom(sfun("bp.R")(k, i)))]),
            "a": Sc(sfun("bp.a")(k)),
            "b": Sc(sfun("bp.b")(k)),
        },
    )
    proof = Struct("r1cs::proof::R1CSProof", f)
    ver = Struct(
        "r1cs::verifier::Verifier",
        {
            "transcript": Opaque("transcript", k=k),
            "constraints": Opaque("constraints"),
            "num_vars": IntV(sfun("nv0")(k)),
            "V": Vec([Seg(mv, lambda i: Pt.atom(sfun("bV")(k, i)))]),
            "deferred_constraints": Opaque("deferred"),
            "pending_multiplier": Opaque("pending"),
        },
    )
    return Tup([ver, proof])


def scalars_of(k):
    """layout of the scalar vector returned by verification_scalars for instance k (C03 R03.1)"""
    N = inst_N(k)
    mv, lgk = sfun("mv")(k), sfun("lgk")(k)
    return Vec(
        [
            Seg(1, lambda i: Sc(sfun("bs.B")(k))),
            Seg(1, lambda i: Sc(sfun("bs.Bb")(k))),
            Seg(N, lambda i: Sc(sfun("bs.g")(k, i))),
            Seg(N, lambda i: Sc(sfun("bs.h")(k, i))),
            Seg(6, lambda i: Sc(sfun("bs.c")(k, i))),
            Seg(mv, lambda i: Sc(sfun("bs.v")(k, i))),
            Seg(5, lambda i: Sc(sfun("bs.t")(k, i))),
            Seg(lgk, lambda i: Sc(sfun("bs.l")(k, i))),
            Seg(lgk, lambda i: Sc(sfun("bs.r")(k, i))),
        ]
    )


def tail_bases(k):
    """bases after H in verify's layout, for instance k (REF.base_layout order)"""
    mv, lgk = sfun("mv")(k), sfun("lgk")(k)
    segs = []
    for n in ("A_I1", "A_O1", "S1", "A_I2", "A_O2", "S2"):
        segs.append(Seg(1, lambda i, n=n: Pt.atom(sfun("bp." + n)(k))))
    segs.append(Seg(mv, lambda i: Pt.atom(sfun("bV")(k, i))))
    for n in ("T_1", "T_3", "T_4", "T_5", "T_6"):
        segs.append(Seg(1, lambda i, n=n: Pt.atom(sfun("bp." + n)(k))))
    segs.append(Seg(lgk, lambda i: Pt.atom(sfun("bp.L")(k, i))))
    segs.append(Seg(lgk, lambda i: Pt.atom(sfun("bp.R")(k, i))))
    return Vec(segs)


def analyse(F):
    info = {"vs_calls": [], "loop2": None, "loops": []}
    cap = isym("cap")

    def hook_vs(I, args, node):
        ver, proof, bp = (I.deref(a) for a in args)
        k = None
        nv0 = ver.fields["num_vars"].e
        if nv0.is_Function and nv0.func.__name__ == "nv0":
            k = nv0.args[0]
        info["vs_calls"].append({"ver": ver, "proof": proof, "bp": bp, "k": k, "where": FX.short(node.get("sp"))})
        if k is None:
            raise Unanalysable("verification_scalars called on an unexpected verifier value")
        # post-state: gate count after the randomized phase
        ver.fields["num_vars"] = IntV(sfun("nv")(k))
        # an instance that returns Ok passed its capacity guard (C17): N_k <= capacity
        I.bounds.add_le(inst_N(k), cap)
        return Opaque("result", ok=Tup([ver, scalars_of(k)]), desc="verification_scalars-error")

    I = H.new_interp(F, {H.P_VER + "verification_scalars": hook_vs})
    ninst = isym("ninst")
    instances = Vec([Seg(ninst, lambda k: mk_instance(k))])
    pc, bp = H.mk_pc_gens(), H.mk_bp_gens(cap)
    prng = RngV("param", "ext")

    def loop_hook(I_, pat, itv, body, env, e):
        segs = itv.vec.nonempty_segs() if itv.vec is not None else []
        if len(segs) != 1:
            return NotImplemented
        probe = segs[0].f(isym("_p"))
        # the accumulation loop is recognised by what one element carries (however the tuple is nested):
        # a verifier, its proof and its scalar vector

        def flat(v):
            v = I_.deref(v)
            if isinstance(v, Tup):
                return [y for x in v.items for y in flat(x)]
            if isinstance(v, Struct) and not v.path.endswith(("Verifier", "R1CSProof")):
                return [y for x in v.fields.values() for y in flat(x)]  # a private per-instance record
            return [v]

        parts = flat(probe)
        is_l2 = any(isinstance(x, Struct) and x.path.endswith("Verifier") for x in parts) and any(isinstance(x, Struct) and x.path.endswith("R1CSProof") for x in parts) and any(isinstance(x, Vec) for x in parts)
        if not is_l2:
            return NotImplemented
        # ---- the accumulation loop: one generic instance k, evaluated in isolation -------------
        if not eq(segs[0].n, ninst):
            raise Unanalysable("accumulation loop does not run over all instances", FX.short(e.get("sp")))
        k = fresh("k", integer=True, nonnegative=True)
        elem = segs[0].f(k)
        # M = running maximum of the padded sizes established by the first loop
        mf = [m for m in I_.max_facts]
        Msym = None
        for m_ in mf:
            if eq(m_["n"], ninst) and eq(m_["template"].xreplace({m_["isym"]: k}), inst_N(k)) and eq(m_["init"], 0):
                Msym = m_["max"]
        info["M"] = Msym
        if Msym is not None:
            I_.bounds.add_le(inst_N(k), Msym)
        # find the accumulator vectors: the two outer vectors the body pushes to
        pushed, _ = I_.pushed_and_read(body, env)
        pre = {name: I_.deref(env[lid]) for lid, name in pushed.items()}
        info["pre"] = pre
        byname = {name: lid for lid, name in pushed.items()}
        lens_before = {name: v.length() for name, v in pre.items() if isinstance(v, Vec)}
        old_b = I_.bounds
        I_.bounds = I_.bounds.with_ub(k, ninst)
        lc = {"isym": k, "n": ninst, "off": sp.Integer(0), "writes": [], "pushes": [], "elem_updates": [], "where": FX.short(e.get("sp")), "node": e, "outer_ids": set()}
        I_.loop_ctx.append(lc)
        I_.scatter = []
        n_draw = len(I_.draw_log)
        try:
            I_.bind(pat, elem, env)
            I_.run_body(body, env)
        finally:
            I_.loop_ctx.pop()
            scat = I_.scatter
            I_.scatter = None
            I_.bounds = old_b
        post = {name: I_.deref(env[lid]) for name, lid in byname.items()}
        info["loop2"] = {"k": k, "scatter": scat, "pre": pre, "post": post, "draws": I_.draw_log[n_draw:], "where": FX.short(e.get("sp")), "lens_before": lens_before}
        # continue after the loop with opaque, equal-length accumulators (invariant checked by the rules)
        tot = isym("total")
        for name, lid in byname.items():
            v = post[name]
            probe_el = None
            if isinstance(v, Vec) and v.segs:
                probe_el = v.segs[0].f(sp.Integer(0))
            if isinstance(probe_el, Pt):
                env[lid] = H.pt_vec("ALL_ELEMS", tot)
            else:
                env[lid] = H.sc_vec("ALL_SCALARS", tot)
        return None

    I.hooks["loop"] = loop_hook
    ret = I.call_fn(P_BATCH, [prng, instances, pc, bp])
    info.update({"I": I, "ret": ret, "prng": prng, "ninst": ninst, "bp": bp, "pc": pc, "cap": cap})
    return info


def body(ck, F, cfg):
    fn = F.fn(P_BATCH)
    ck.fn(P_BATCH)
    where = FX.short(fn["sp"])
    A = analyse(F)
    I = A["I"]
    L2 = A["loop2"]
    if L2 is None:
        ck.fail("R07.3", "accumulation-loop", "no per-instance accumulation loop over (verifier, proof, scalars) found", where)
        return
    k = L2["k"]
    N = inst_N(k)
    M = A["M"]
    ck.require(M is not None, "R07.3", "max-padded-size", "the shared-generator width must be the running maximum of the instances' padded sizes (first loop)", where)
    if M is None:
        return
    # R07.4 every instance goes through verification_scalars with the shared generators; errors abort
    calls = A["vs_calls"]
    okc = len(calls) == 1 and calls[0]["bp"] is A["bp"] and calls[0]["k"] is not None
    guards = [it for it, ctx in AN.flat_trace(I.trace.items) if it[0] == "guard" and "verification_scalars-error" in str(it[1])]
    ck.require(okc and len(guards) == 1, "R07.4", "each-instance-checked", f"every instance must pass through verification_scalars(proof, shared bp_gens) with `?` (so its own shape/capacity checks apply); calls={len(calls)} aborting-guards={len(guards)}", where)
    # R07.1 fresh weight
    dr = [d for d in L2["draws"] if d["kind"] == "scalar"]
    okd = len(dr) == 1 and dr[0]["rng"] is A["prng"] and k in dr[0]["idx"]
    ck.require(okd, "R07.1", "fresh-weight", f"exactly one scalar must be drawn from the caller's RNG inside the per-instance loop body; draws: {[(repr(d['rng']), str(d['atom'])) for d in dr]}", L2["where"])
    if not okd:
        return
    alpha = dr[0]["atom"]
    ck.sample({"weight": str(alpha), "drawn_from": repr(dr[0]["rng"]), "inside_loop_over": str(A["ninst"])})
    sc = scalars_of(k)
    # R07.2 / R07.3 accumulation table: (target index as function of i, source position, range)
    expect = [
        ("B", sp.Integer(0), sp.Integer(0), sp.Integer(1)),
        ("B_blinding", sp.Integer(1), sp.Integer(1), sp.Integer(1)),
        ("G", sp.Integer(2), sp.Integer(2), N),
        ("H", 2 + M, 2 + N, N),
    ]
    scat = L2["scatter"]
    used = [False] * len(scat)
    for name, tgt0, src0, n in expect:
        hit = None
        for idx, rec in enumerate(scat):
            if used[idx]:
                continue
            loops = rec["loops"]
            inner = [l for l in loops if l[0] != k]
            if n == 1:
                if not inner and eq(rec["idx"], tgt0):
                    hit = (idx, rec, None)
                    break
            else:
                if len(inner) == 1 and eq(inner[0][1], n) and eq(sp.expand(rec["idx"] - inner[0][0]), tgt0):
                    hit = (idx, rec, inner[0][0])
                    break
        if hit is None:
            ck.fail("R07.3", f"accumulate:{name}", f"no accumulation into all_scalars[{tgt0} + i] for i < {n} found (segment {name})", L2["where"])
            continue
        idx, rec, isym_ = hit
        used[idx] = True
        i = isym_ if isym_ is not None else sp.Integer(0)
        bnd = I.bounds.with_ub(k, A["ninst"])
        if isym_ is not None:
            bnd = bnd.with_ub(isym_, n)
        src = sc.index(sp.expand(src0 + i), bnd)
        delta = sp.expand(rec["value"].e - rec["old"]) if isinstance(rec["value"], Sc) else None
        okk = delta is not None and not delta.has(rec["old"]) and eq(delta, alpha * src.e)
        ck.require(okk, "R07.2", f"accumulate:{name}", f"all_scalars[{rec['idx']}] must be incremented by weight * scalars[{src0} + i] (= {alpha}*{src.e}); found increment `{delta}`", rec["where"], detail=f"+= {delta}")
    extra = [rec for idx, rec in enumerate(scat) if not used[idx]]
    ck.require(not extra, "R07.3", "no-other-accumulation", f"unexpected indexed updates in the accumulation loop: {[(str(r['idx']), str(r['value'])) for r in extra][:3]}", L2["where"])
    # pushed tails: scalars and elements appended for this instance
    pre, post = L2["pre"], L2["post"]
    sc_name = next((nm for nm, v in post.items() if isinstance(v, Vec) and v.segs and isinstance(v.segs[0].f(sp.Integer(0)), Sc)), None)
    el_name = next((nm for nm, v in post.items() if isinstance(v, Vec) and v.segs and isinstance(v.segs[0].f(sp.Integer(0)), Pt)), None)
    if sc_name is None or el_name is None:
        ck.fail("R07.3", "accumulators", f"could not identify the scalar/element accumulators among {list(post)}", L2["where"])
        return
    bnd = I.bounds.with_ub(k, A["ninst"])
    new_sc = post[sc_name].skip(pre[sc_name].length(), bnd)
    new_el = post[el_name].skip(pre[el_name].length(), bnd)
    tail_src = sc.skip(2 + 2 * N, bnd).map(lambda s_: Sc(alpha * s_.e))
    why = []
    ck.require(vec_eq(new_sc, tail_src, why), "R07.2", "tail-scalars", f"the scalars pushed for an instance must be weight * scalars[2+2N..] in order; {'; '.join(why)}", L2["where"], detail=show(new_sc)[:200])
    why = []
    ck.require(vec_eq(new_el, tail_bases(k), why), "R07.3", "tail-elements", f"the points pushed for an instance must follow verify's base order A_I1,A_O1,S1,A_I2,A_O2,S2,V*,T_1,T_3,T_4,T_5,T_6,L*,R*; {'; '.join(why)}", L2["where"], detail=show(new_el)[:200])
    ck.require(eq(new_sc.length(), new_el.length()), "R07.3", "tail-lengths-equal", f"per instance {new_el.length()} points but {new_sc.length()} scalars are appended", L2["where"])
    # header: [B][B~][G(M)][H(M)] and 2M+2 zero scalars
    hdr_e, hdr_s = pre[el_name], pre[sc_name]
    want_e = Vec([Seg(1, lambda i: Pt.atom(ssym("B"))), Seg(1, lambda i: Pt.atom(ssym("Bb"))), Seg(M, lambda i: Pt.atom(sfun("G")(i))), Seg(M, lambda i: Pt.atom(sfun("H")(i)))])
    why = []
    ck.require(isinstance(hdr_e, Vec) and vec_eq(hdr_e, want_e, why), "R07.3", "header-elements", f"shared bases must be [B][B_blinding][G(M)][H(M)] of the caller's generators; {'; '.join(why)}; got {show(hdr_e) if isinstance(hdr_e, Vec) else hdr_e!r}", where)
    why = []
    ck.require(isinstance(hdr_s, Vec) and vec_eq(hdr_s, Vec.const(Sc(0), 2 * M + 2), why), "R07.3", "header-scalars", f"shared scalars must start as 2M+2 zeros; {'; '.join(why)}", where)
    # verdict
    guards = [it for it in I.trace.items if it[0] == "guard" and FX.same_fn(it[4], P_BATCH)]
    ret = A["ret"]
    chain, final = AN.exit_chain(I, ret, lambda f: FX.same_fn(f, P_BATCH))
    lastc = chain[-1] if chain else None
    okv = lastc is not None and isinstance(lastc[0], Cond) and lastc[0].op == "iszero" and lastc[0].neg and isinstance(getattr(lastc[0], "subject", None), Pt)
    okv = okv and isinstance(final, Enum) and final.variant == "Ok" and isinstance(lastc[1], Enum) and lastc[1].variant == "Err" and "VerificationError" in repr(lastc[1])
    ck.require(okv, "R07.4", "verdict", f"batch_verify must return Ok exactly when the single accumulated multiscalar sum is the identity; return value {ret!r}", where)
    # "succeeds if and only if each instance would succeed on its own": apart from failures handed on from the instances'
    # own verification_scalars (`?`) and the verdict, batch_verify must not have a failure exit of its own (seeded change
    # C07j: an extra `gens_capacity <= max_n_padded` rejection).  A strict `capacity < M` (M = widest member) cannot fire
    # after the members' own capacity guards and is tolerated.
    extra = []
    for c_, v_, w_ in chain[:-1] if okv else chain:
        harmless = isinstance(c_, Cond) and c_.op == "lt" and not c_.neg and c_.a is not None and eq(c_.a, isym("cap")) and eq(c_.b, M)
        if not harmless:
            extra.append((str(c_), repr(v_), w_))
    ck.require(not extra, "R07.4", "no-extra-rejection", f"batch_verify rejects (or leaves early) on a condition of its own, which individual verification does not have: {extra[:3]}", where)
    msms = list(I.msm_log)  # whole dynamic extent of the batch_verify run
    ck.require(len(msms) == 1 and msms[0]["equal"], "R07.3", "single-msm", f"one multiscalar check over equally long lists expected; {[(str(m['len_bases']), str(m['len_scalars'])) for m in msms]}", where)
    ck.floor("accumulation sites", len([o for o in ck.obligations if o[1].startswith("accumulate:")]), 4)


def run(tier):
    ck = run_configs(
        "C07", tier, LEVEL, body,
        explanation="TERM on batch_verify with a symbolic list of instances (k-indexed atoms): the first loop must send every instance through verification_scalars "
        "with the shared generators (errors abort) and keep the running maximum M of padded sizes; the accumulation loop body is evaluated for one generic instance: "
        "exactly one scalar is drawn from the caller's RNG inside the body; every indexed update is recorded as a scatter effect and must be weight*scalars[src] "
        "at the target whose base (in [B][B~][G(M)][H(M)]) equals the base of scalars[src] in verify's layout; the pushed points follow verify's tail order and the pushed scalars are weight*tail.",
        rule_text="R07.1 fresh draw inside the loop; R07.2 weight multiplies every scalar; R07.3 aligned accumulation (positional base correspondence); R07.4 per-instance checks, verdict",
        not_decided=["probability that random weights cancel (Schwartz-Zippel, trusted)", "quality of the caller's RNG"],
        assumptions=["layout of verification_scalars' result as decided in C03 R03.1"],
    )
    return ck.finish()


CLAIM = {
    "engine": "TERM",
    "level": "other",
    "design_ref": "DESIGN.md section 4 C07",
    "technique": "static: symbolic evaluation of one generic batch instance with scatter-effect recording; positional alignment of bases and weighted scalars",
    "text": "Decides that the batch check is sum_k alpha_k * (instance k's combined check) with alpha_k a fresh draw per instance from the caller's RNG: "
    "a constant, hoisted or reused weight, an unweighted segment, or a misaligned offset breaks a recorded accumulation effect.",
    "note": "trusted: random linear combination argument; C03's layout",
}

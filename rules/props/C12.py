"""C12 -- generators: derivation chain, labels, history independence, views (structure)."""
import sympy as sp

from .. import facts as FX
from .. import harness as H
from ..alg import Bytes, Cond, Enum, IntV, Opaque, Pt, Sc, Seg, Struct, Tup, Unanalysable, Vec, eq, isym, sfun, show, ssym, vec_eq
from ..interp import HashV, IterV, RngV, ReturnSignal
from .common import run_configs

LEVEL = "other"
P_NEW = "generators::GeneratorsChain::<G>::new"
P_FF = "generators::GeneratorsChain::<G>::fast_forward"
P_NEXT = "<generators::GeneratorsChain<G> as std::iter::Iterator>::next"
P_INC = "generators::BulletproofGens::<G>::increase_capacity"
P_BNEW = "generators::BulletproofGens::<G>::new"
P_DEF = "<generators::PedersenGens<G> as std::default::Default>::default"
P_SG = "generators::BulletproofGensShare::<'a, G>::G"
P_SH = "generators::BulletproofGensShare::<'a, G>::H"


def seed_facts(rng):
    """(hash type, list of update payloads, slice) of a ChaCha rng seeded from a digest prefix"""
    if not (isinstance(rng, RngV) and rng.kind == "chacha_seeded"):
        return None
    seed = rng.info.get("seed")
    if not (isinstance(seed, Bytes) and len(seed.parts) == 1 and seed.parts[0][0] == "digest-slice"):
        return None
    _, h, lo, hi = seed.parts[0]
    return {"hash": h.ty, "updates": h.updates, "lo": lo, "hi": hi, "impl": rng.info.get("impl", "")}


class _NoFF(Exception):
    pass


def label_shape(v):
    """label value -> (tag byte, description of the remaining bytes)"""
    if not isinstance(v, Vec):
        return None
    segs = v.nonempty_segs()
    if len(segs) == 5 and all(s_.n == 1 for s_ in segs):
        # [tag, b0, b1, b2, b3] with b_i the i-th byte of one u32 encoding (destructured to_le_bytes / to_be_bytes)
        tag = segs[0].f(sp.Integer(0))
        bs = [s_.f(sp.Integer(0)) for s_ in segs[1:]]
        if isinstance(tag, IntV) and all(isinstance(b_, Opaque) and b_.what == "byte-of" and b_.info.get("j") == i_ for i_, b_ in enumerate(bs)) and all(b_.info["src"] is bs[0].info["src"] for b_ in bs):
            val = bs[0].info["src"]
            if isinstance(val, Bytes) and len(val.parts) == 1 and val.parts[0][0] == "u32":
                return (int(tag.e), (val.parts[0][1], val.parts[0][2], sp.Integer(4)))
        return None
    if len(segs) != 2 or segs[0].n != 1:
        return None
    tag = segs[0].f(sp.Integer(0))
    rest = segs[1].f(isym("_j"))
    if not (isinstance(tag, IntV) and isinstance(rest, Opaque) and rest.what == "part-of"):
        return None
    val = rest.info["value"]
    enc = None
    if isinstance(val, Bytes) and len(val.parts) == 1 and val.parts[0][0] == "u32":
        enc = (val.parts[0][1], val.parts[0][2], segs[1].n)
    return (int(tag.e), enc)


P_AGG = "<generators::AggregatedGensIter<'a, G> as std::iter::Iterator>::next"
P_AG = "generators::BulletproofGens::<G>::G"
P_AH = "generators::BulletproofGens::<G>::H"


def aggregated_views(ck, F):
    """R12.5: the aggregated (n, m) iterator as a transition system on (party_idx p, gen_idx g).
    Reference transitions (invariant g <= n, p <= m; start (0,0)):
      A  g <  n, p <  m      : yield array[p][g],   state (p, g+1)
      B  g >= n, p+1 <  m, n >= 1 : yield array[p+1][0], state (p+1, 1)
      B0 g >= n, p+1 <  m, n == 0 : None (an empty view lists nothing)
      C  g >= n, p+1 >= m    : None
      D  g <  n, p >= m      : None
    By induction over calls the yielded sequence is (0,0..n-1),(1,0..n-1),..,(m-1,0..n-1): the first n generators of the
    first m parties in party-major order.  Every yielded generator index must be provably < n and party index < m."""
    from ..alg import Bounds, Ref

    fn = F.fn(P_AGG)
    ck.fn(P_AGG)
    where = FX.short(fn["sp"])
    n, m, p, g, parties, cap = isym("vn"), isym("vm"), isym("vp"), isym("vg"), isym("parties"), isym("cap")

    def run(case):
        I = H.new_interp(F)
        I.bounds = Bounds()
        arr = Vec([Seg(parties, lambda i: Vec([Seg(cap, lambda j, i=i: Pt.atom(sfun("GEN")(i, j)))]))])
        st = Struct("generators::AggregatedGensIter", {"array": arr, "n": IntV(n), "m": IntV(m), "party_idx": IntV(p), "gen_idx": IntV(g)})
        b = I.bounds
        b.add_le(m, parties)  # caller precondition: at most party_capacity parties
        b.add_le(n, cap)  # caller precondition: at most gens_capacity generators per party
        if case in ("A", "D"):
            b.add_le(g + 1, n)
        else:
            b.add_le(n, g)
        if case == "A":
            b.add_le(p + 1, m)
        elif case == "B":
            b.add_le(p + 2, m)
            b.add_le(1, n)
        elif case == "B0":
            b.add_le(p + 2, m)
            b.add_le(n, 0)
        elif case == "C":
            b.add_le(m, p + 1)
        elif case == "D":
            b.add_le(m, p)
        box = [st]
        from ..interp import SAFETY_LOG

        mark = len(SAFETY_LOG)
        ret = I.call_fn(P_AGG, [Ref(lambda: box[0], lambda nv: box.__setitem__(0, nv), "self")])
        idx_logs = [e for e in SAFETY_LOG[mark:] if e["kind"] == "index"]
        return ret, box[0], idx_logs, I

    want = {
        "A": ("Some", (p, g), (p, g + 1)),
        "B": ("Some", (p + 1, sp.Integer(0)), (p + 1, sp.Integer(1))),
        "B0": ("None", None, None),
        "C": ("None", None, None),
        "D": ("None", None, None),
    }
    for case, (variant, yielded, nxt) in want.items():
        try:
            ret, st, idx_logs, I = run(case)
        except Unanalysable as u:
            ck.fail("R12.5", f"aggregated:{case}", f"unanalysable: {u.msg}", u.where or where, kind="unanalysable")
            continue
        ok = isinstance(ret, Enum) and ret.variant == variant
        why = f"returned {ret!r}"
        if ok and variant == "Some":
            el = ret.payload[0]
            ok = isinstance(el, Pt) and len(el.terms) == 1 and eq(el.terms[0][1](0), sfun("GEN")(yielded[0], yielded[1]))
            ok = ok and eq(st.fields["party_idx"].e, nxt[0]) and eq(st.fields["gen_idx"].e, nxt[1])
            why = f"yielded {el!r}, next state ({st.fields['party_idx']!r}, {st.fields['gen_idx']!r})"
            # the yielded generator index must be inside the requested width n (not merely inside the table)
            in_view = __import__("rules.alg", fromlist=["lt"]).lt(yielded[1], n, I.bounds)
            ck.require(in_view, "R12.5", f"aggregated:{case}:index<n", f"case {case}: the iterator yields generator index {yielded[1]} of party {yielded[0]} without establishing {yielded[1]} < n: for n = 0 and m >= 2 it lists generators outside the requested view (and indexes out of bounds on an empty table)", where)
            bad = [e_ for e_ in idx_logs if not e_["ok"]]
            ck.require(not bad, "R12.5", f"aggregated:{case}:in-bounds", f"case {case}: table access not provably in bounds: {[e_['detail'] for e_ in bad]}", where)
        ck.require(ok, "R12.5", f"aggregated:{case}", f"case {case} of the view iterator differs from the reference transition: {why}", where, detail=why[:200])
    # constructors start at (0, 0) over the right table
    for path, fld in ((P_AG, "G_vec"), (P_AH, "H_vec")):
        F.fn(path)
        ck.fn(path)
        I = H.new_interp(F)
        bp = H.mk_bp_gens()
        r = I.call_fn(path, [bp, IntV(n), IntV(m)])
        ok = isinstance(r, Struct) and eq(r.fields["n"].e, n) and eq(r.fields["m"].e, m) and eq(r.fields["party_idx"].e, 0) and eq(r.fields["gen_idx"].e, 0) and r.fields["array"] is bp.fields[fld]
        ck.require(ok, "R12.5", f"aggregated:start:{fld}", f"{path.split('::')[-1]}(n, m) must start the view at (party 0, generator 0) over {fld}; got {r!r}", FX.short(F.fn(path)["sp"]))


def body(ck, F, cfg):
    # ---- R12.1 chain seed
    has_ff = True
    for p in (P_NEW, P_FF, P_NEXT, P_INC, P_BNEW, P_DEF, P_SG, P_SH):
        try:
            F.fn(p)
        except FX.AnchorMissing:
            if p != P_FF:
                raise
            has_ff = False  # no skipping helper: the chain is advanced with Iterator::skip, i.e. through `next` (R12.2 next:one-draw)
            continue
        ck.fn(p)
    I = H.new_interp(F)
    ch = I.call_fn(P_NEW, [Bytes([("lit", b"LBL")])])
    sf = seed_facts(ch.fields.get("prng") if isinstance(ch, Struct) else None)
    ok = sf is not None and "Sha3_512" in sf["hash"] and len(sf["updates"]) == 2 and isinstance(sf["updates"][0], Bytes) and sf["updates"][0].parts == [("lit", b"GeneratorsChain")] and isinstance(sf["updates"][1], Bytes) and sf["updates"][1].parts == [("lit", b"LBL")] and (sf["lo"], sf["hi"]) == ("0", "32") and "ChaCha20Rng" in sf["impl"]
    ck.require(ok, "R12.1", "chain-seed", f"a generator chain must be ChaCha20 seeded with the first 32 bytes of SHA3-512(\"GeneratorsChain\" || label); found {sf}", FX.short(F.fn(P_NEW)["sp"]))
    ck.sample({"chain_seed": str({k: (str(v) if k != "updates" else [repr(u) for u in v]) for k, v in (sf or {}).items()})})
    # next / fast_forward consume the chain by the same draw
    def chain_state():
        return Struct("generators::GeneratorsChain", {"prng": RngV("chacha_seeded", "chain"), "affine_curve_phantom": Opaque("phantom")})

    from ..alg import Ref

    st = chain_state()
    I2 = H.new_interp(F)
    box = [st]
    r = I2.call_fn(P_NEXT, [Ref(lambda: box[0], lambda nv: box.__setitem__(0, nv), "self")])
    d = I2.draw_log
    okn = isinstance(r, Enum) and r.variant == "Some" and len(d) == 1 and d[0]["kind"] == "point" and d[0]["rng"] is st.fields["prng"] and isinstance(r.payload[0], Pt)
    ck.require(okn, "R12.2", "next:one-draw", f"Iterator::next of the chain must return exactly one point drawn from the chain's own PRNG; got {r!r}, draws={len(d)}", FX.short(F.fn(P_NEXT)["sp"]))
    st = chain_state()
    I3 = H.new_interp(F)
    k = isym("skip")
    try:
        if not has_ff:
            raise _NoFF()
        r3 = I3.call_fn(P_FF, [st, IntV(k)])
        d3 = I3.draw_log
        loops = [l for l in I3.loop_log if FX.same_fn(l["fn"], P_FF)]
        okf = len(d3) == 1 and d3[0]["kind"] == "point" and d3[0]["rng"] is st.fields["prng"] and len(d3[0]["idx"]) == 1 and len(loops) == 1 and eq(loops[0]["n"], k) and isinstance(r3, Struct) and r3.fields["prng"] is st.fields["prng"]
        guards = [it for it in I3.trace.items if it[0] in ("guard", "alt")]
        okf = okf and not guards
        ck.require(okf, "R12.2", "fast_forward:n-draws", f"fast_forward(n) must discard exactly n draws of the same kind from the chain's PRNG, unconditionally; draws={[(str(x['atom']), x['kind']) for x in d3]} loops={[(str(l['n'])) for l in loops]} conditions={len(guards)}", FX.short(F.fn(P_FF)["sp"]))
    except _NoFF:
        ck.ok("R12.2", "fast_forward:n-draws", detail="no dedicated helper in this tree: elements are skipped with Iterator::skip, which consumes the chain through its own `next` (one draw each); the offset itself is checked by increase:G_vec / increase:H_vec")
    except Unanalysable as u:
        ck.fail("R12.2", "fast_forward:n-draws", f"unanalysable: {u.msg}", u.where, kind="unanalysable")
    # ---- increase_capacity: labels, offsets, both vectors, all parties
    calls = []

    def hook_new(I_, args, node):
        # a chain is the infinite sequence CH<tag>(party, 0), CH<tag>(party, 1), .. determined by its label
        lab = I_.deref(args[0])
        calls.append(Opaque("chain", label=lab, idx=[lc["isym"] for lc in I_.loop_ctx if lc.get("isym") is not None]))
        shape = label_shape(lab)
        tag = shape[0] if shape else -1
        party = shape[1][1] if shape and shape[1] else None
        pe = party.e if isinstance(party, IntV) else sp.Symbol("?")
        f = sfun(f"CH{tag}")
        return IterV(None, infinite=lambda i, f=f, pe=pe: Pt.atom(f(pe, sp.expand(i))))

    def hook_ff(I_, args, node):
        c, n = I_.deref(args[0]), I_.deref(args[1])
        inf = c.infinite
        return IterV(None, infinite=lambda i, inf=inf, n=n: inf(sp.expand(n.e + i)))

    I4 = H.new_interp(F, {P_NEW: hook_new, P_FF: hook_ff})
    old, new, parties = isym("old"), isym("new"), isym("parties")
    Gv = Vec([Seg(parties, lambda i: Vec([Seg(old, lambda j, i=i: Pt.atom(sfun("CH71")(i, j)))]))])
    Hv = Vec([Seg(parties, lambda i: Vec([Seg(old, lambda j, i=i: Pt.atom(sfun("CH72")(i, j)))]))])
    gens = Struct("generators::BulletproofGens", {"gens_capacity": IntV(old), "party_capacity": IntV(parties), "G_vec": Gv, "H_vec": Hv})
    try:
        try:
            I4.call_fn(P_INC, [gens, IntV(new)])
        except ReturnSignal:
            pass
        where = FX.short(F.fn(P_INC)["sp"])
        guards = [it for it in I4.trace.items if it[0] == "guard"]
        # an early `return;` is a successful exit: the interpreter models it as a conditional continuation, so the final
        # state is ite(exit condition, unchanged state, extended state).  Peel these off: the exit conditions are checked
        # below, the remaining rules look at the extended state.
        from ..alg import Ite as _Ite

        def peel(v, unchanged):
            conds = []
            while isinstance(v, _Ite):
                if unchanged(I4.deref(v.a)):
                    conds.append(v.cond)
                    v = I4.deref(v.b)
                elif unchanged(I4.deref(v.b)):
                    conds.append(v.cond.negate())
                    v = I4.deref(v.a)
                else:
                    break
            return conds, v

        exit_conds, cap_after = peel(I4.deref(gens.fields["gens_capacity"]), lambda x: isinstance(x, IntV) and eq(x.e, old))
        gens.fields["gens_capacity"] = cap_after
        guards = guards + [("guard", c_) for c_ in exit_conds]
        # the early exits, taken together, must mean exactly `old >= new` (however the comparison is spelled or split)
        from ..alg import Bounds as _B, le as _le, lt as _lt

        def facts_of(c, holds):
            """(a, b) pairs meaning a <= b that follow from `c` being true (holds) / false"""
            if not (isinstance(c, Cond) and c.op == "lt"):
                return None
            truth = holds != c.neg  # truth of the bare a < b
            return [(c.a + 1, c.b)] if truth else [(c.b, c.a)]

        okg = bool(guards)
        none_taken = _B()
        for g_ in guards:
            fa = facts_of(g_[1], True)
            fn_ = facts_of(g_[1], False)
            if fa is None or fn_ is None:
                okg = False
                break
            b1 = _B()
            for x_, y_ in list(none_taken.facts) + fa:
                b1.add_le(x_, y_)
            okg = okg and _le(new, old, b1)  # each exit is taken only when old >= new
            for x_, y_ in fn_:
                none_taken.add_le(x_, y_)
        okg = okg and _lt(old, new, none_taken)  # and when no exit is taken, old < new
        ck.require(okg, "R12.2", "increase:early-return", f"increase_capacity must return early exactly when gens_capacity >= new_capacity; guards: {[str(g[1]) for g in guards]}", where)
        shapes = [label_shape(c.info["label"]) for c in calls]
        tags = [s_[0] if s_ else None for s_ in shapes]
        ck.require(tags == [ord("G"), ord("H")], "R12.1", "labels:tags", f"the G vector must be extended from the chain tagged 'G' and the H vector from the chain tagged 'H' (per party, in this order); chain tags used: {tags}", where)
        for c, s_ in zip(calls, shapes):
            enc = s_[1] if s_ else None
            okl = enc is not None and enc[0] == "LE" and isinstance(enc[1], IntV) and len(c.info["idx"]) == 1 and eq(enc[1].e, c.info["idx"][0]) and eq(enc[2], 4)
            ck.require(okl, "R12.1", f"labels:party-index:{chr(s_[0]) if s_ and 0 < s_[0] < 128 else '?'}", f"label must be [tag, LE32(party index)] with the loop's party index in bytes 1..5; got {enc}", where)
        loops = [l for l in I4.loop_log if FX.same_fn(l["fn"], P_INC)]
        ck.require(len(loops) == 1 and eq(loops[0]["n"], parties) and eq(loops[0]["off"], 0), "R12.2", "increase:all-parties", f"all parties 0..party_capacity must be extended; loops: {[(str(l['n']), str(l['off'])) for l in loops]}", where)
        i = isym("pi")
        from ..alg import Bounds

        bnd = Bounds().with_ub(i, parties)
        for nm, tag in (("G_vec", 71), ("H_vec", 72)):
            got = I4.deref(gens.fields[nm]).index(i, bnd) if isinstance(I4.deref(gens.fields[nm]), Vec) else I4.deref(gens.fields[nm])
            if isinstance(got, _Ite) or exit_conds:
                before = Vec([Seg(old, lambda j, tag=tag: Pt.atom(sfun(f"CH{tag}")(i, j)))])
                cs_, got = peel(got, lambda x, before=before: isinstance(x, Vec) and vec_eq(x, before, []))
                ck.require([c_.key() for c_ in cs_] == [c_.key() for c_ in exit_conds], "R12.2", f"increase:early-return:{nm}", f"{nm} must be left unchanged on exactly the paths that return early; its conditions {[str(c_) for c_ in cs_]} vs the capacity's {[str(c_) for c_ in exit_conds]}", where)
            want = Vec([Seg(new, lambda j, tag=tag: Pt.atom(sfun(f"CH{tag}")(i, j)))])
            I4.bounds.add_le(old, new)
            why = []
            okv = isinstance(got, Vec) and vec_eq(got, want, why)
            ck.require(okv, "R12.2", f"increase:{nm}", f"after increase_capacity party i's {nm} must be elements 0..new of its own chain (old prefix kept, chain skipped by the old capacity, new-old taken); {'; '.join(why)}; got {show(got) if isinstance(got, Vec) else got!r}", where)
        ck.require(isinstance(gens.fields["gens_capacity"], IntV) and eq(gens.fields["gens_capacity"].e, new), "R12.2", "increase:records-capacity", f"gens_capacity must become new_capacity; got {gens.fields['gens_capacity']!r}", where)
    except Unanalysable as u:
        ck.fail("R12.2", "increase:analysable", f"unanalysable: {u.msg}", u.where, kind="unanalysable")
    # new(): starts from capacity 0 and empty vectors, then increase_capacity
    seen = []

    def hook_inc(I_, args, node):
        g = I_.deref(args[0])
        seen.append((g.fields["gens_capacity"], g.fields["G_vec"], g.fields["H_vec"], I_.deref(args[1]), g.fields["party_capacity"]))
        return H.UNIT if hasattr(H, "UNIT") else Tup([])

    I5 = H.new_interp(F, {P_INC: hook_inc})
    capn, pn = isym("capn"), isym("pn")
    try:
        r5 = I5.call_fn(P_BNEW, [IntV(capn), IntV(pn)])
        okb = len(seen) == 1 and eq(seen[0][0].e, 0) and eq(seen[0][3].e, capn) and eq(seen[0][4].e, pn)
        if okb:
            for vv in (seen[0][1], seen[0][2]):
                el = vv.index(isym("pi"), __import__("rules.alg", fromlist=["Bounds"]).Bounds().with_ub(isym("pi"), pn)) if isinstance(vv, Vec) and eq(vv.length(), pn) else None
                okb = okb and isinstance(el, Vec) and eq(el.length(), 0)
        ck.require(okb, "R12.2", "new:from-empty", "BulletproofGens::new must start from capacity 0 with one empty vector per party and call increase_capacity(gens_capacity)", FX.short(F.fn(P_BNEW)["sp"]))
    except Unanalysable as u:
        ck.fail("R12.2", "new:from-empty", f"unanalysable: {u.msg}", u.where, kind="unanalysable")
    # ---- R12.3 Pedersen bases
    I6 = H.new_interp(F)
    pg = I6.call_fn(P_DEF, [])
    okp = isinstance(pg, Struct) and isinstance(pg.fields.get("B"), Pt) and str(pg.fields["B"].terms[0][1](0)) == "GENERATOR"
    d6 = [x for x in I6.draw_log if x["kind"] == "point"]
    sf6 = seed_facts(d6[0]["rng"]) if d6 else None
    okp = okp and len(d6) == 1 and isinstance(pg.fields.get("B_blinding"), Pt) and str(pg.fields["B_blinding"].terms[0][1](0)) == str(d6[0]["atom"])
    okp = okp and sf6 is not None and "Sha3_512" in sf6["hash"] and len(sf6["updates"]) == 1 and isinstance(sf6["updates"][0], Bytes) and len(sf6["updates"][0].parts) == 1 and sf6["updates"][0].parts[0][0] == "uncompressed" and str(sf6["updates"][0].parts[0][1].terms[0][1](0)) == "GENERATOR" and (sf6["lo"], sf6["hi"]) == ("0", "32") and "ChaCha20Rng" in sf6["impl"]
    ck.require(okp, "R12.3", "pedersen-default", f"default bases must be B = curve generator and B_blinding = first point of ChaCha20(SHA3-512(uncompressed(B))[..32]); got {pg!r} seed {sf6}", FX.short(F.fn(P_DEF)["sp"]))
    # ---- R12.4 share views
    for path, fld in ((P_SG, "G_vec"), (P_SH, "H_vec")):
        I7 = H.new_interp(F)
        bp = H.mk_bp_gens()
        sh = Struct("generators::BulletproofGensShare", {"gens": bp, "share": IntV(0)})
        nn = isym("nn")
        I7.bounds.add_le(nn, isym("cap"))
        r7 = I7.to_iter(I7.call_fn(path, [sh, IntV(nn)]))
        fam = "G" if fld == "G_vec" else "H"
        why = []
        ck.require(r7.vec is not None and vec_eq(r7.vec, H.pt_vec(fam, nn), why), "R12.4", f"share:{fam}", f"share.{fam}(n) must be the first n generators of the share's own party vector; {'; '.join(why)}", FX.short(F.fn(path)["sp"]))
    aggregated_views(ck, F)
    # local Iterator impls define only `next` (+ size_hint): every adaptor (skip, nth, step_by, take, zip, ..) then derives from
    # the analysed `next`; an overridden provided method would need its own agreement proof with `next`
    n_it = 0
    reviewed_iters = ("generators::GeneratorsChain", "generators::AggregatedGensIter", "util::FrExp")
    for imp in F.items["impls"]:
        if (imp["trait"] or "").endswith("iter::Iterator") and imp["expn"] is None:
            if not imp["self_ty"].startswith(reviewed_iters):
                continue  # an iterator type the generator / power-sequence code does not use is not this property's business
            n_it += 1
            names = sorted(x.split("::")[-1] for x in imp["items"])
            extra = [x for x in names if x not in ("next", "size_hint", "Item")]
            ck.require(not extra, "R12.5", f"iterator-impl:{imp['self_ty'].split('<')[0].split('::')[-1]}", f"Iterator impl for {imp['self_ty']} overrides provided methods {extra}: skip/nth/step_by no longer derive from the analysed `next` (kind=unanalysable: no agreement proof)", kind_hint="unanalysable")
    ck.floor("local Iterator impls", n_it, 3)
    ck.floor("chain uses", len(calls), 2)
    ck.floor("C12 obligations", len(ck.obligations), 14)


def run(tier):
    ck = run_configs(
        "C12", tier, LEVEL, body,
        explanation="TERM/WIRE: GeneratorsChain::new is interpreted with a symbolic label: hash type, hashed parts (domain string then label), the 32-byte prefix and the ChaCha20 seeding are read "
        "from the effect objects. Iterator::next and fast_forward must consume the chain by the same single point draw per element. increase_capacity is interpreted on symbolic (old, new, parties): "
        "chain tags 'G'/'H' go to the G/H vectors, the label carries LE32(party index), the chain is skipped by the old capacity and new-old elements are taken, for every party, so that element (j,i) is "
        "the i-th draw of chain (tag, j) regardless of history. Pedersen default bases and the prefix views are checked likewise.",
        rule_text="R12.1 chain seed and labels; R12.2 same draw in skip/yield, resize offsets, history independence; R12.3 Pedersen bases; R12.4 prefix views; R12.5 aggregated (n,m) view as a four-case transition system (induction over calls stated, cases checked)",
        not_decided=["pairwise distinctness, prime-order membership and pinned digests of generator values (values of hash/PRG/arkworks rand: need execution)"],
        assumptions=["SHA3/ChaCha/arkworks G::rand are the pinned dependencies"],
    )
    return ck.finish()


CLAIM = {
    "engine": "TERM+WIRE",
    "level": "other",
    "design_ref": "DESIGN.md section 4 C12",
    "technique": "static: abstract interpretation of the derivation chain and resize logic on symbolic capacities; effect-object inspection for hash/PRG/labels",
    "text": "Decides determinism and history independence as structure: which hash, which domain string and label bytes, which PRG, how many draws are skipped and taken on every resize path, that G and H chains carry different tags, "
    "and the aggregated (n, m) views as a five-case transition system (party-major enumeration of the first n generators of the first m parties by induction over calls).",
    "note": "trusted: pinned SHA3-512, ChaCha20, arkworks UniformRand for curve points (distinctness / subgroup membership not decided)",
}

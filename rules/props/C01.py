"""C01 -- completeness: the prover computes the reference protocol's values; twins agree."""
import sympy as sp

from .. import analyses as AN
from .. import facts as FX
from .. import flatten
from .. import harness as H
from .. import prover_ref as PR
from .. import spec_ref as REF
from ..alg import Cond, Enum, eq, isym
from .common import run_configs

LEVEL = "other"


def guards_of(I, fn_suffix):
    # the whole dynamic extent of the run (a guard may live in a fallible helper the entry point calls with `?`)
    return [it for it in AN.flat_trace(I.trace.items) if it[0][0] == "guard"]


def exp_iter_rule(ck, F):
    """util::exp_iter / FrExp::next: first element 1, each next multiplies by x (power schema summary)"""
    I = H.new_interp(F)
    x = sp.Symbol("x0")
    from ..alg import Sc, Struct, Ref

    fr = I.call_fn.__self__.F.fn("util::exp_iter")
    I2 = H.Interp(F)  # no hooks: interpret the real function
    v = I2.call_fn("util::exp_iter", [Sc(x)])
    # the roles of the state's fields are read off the initial state (names are free): one holds 1, one holds x
    sc_fields = {k: f for k, f in v.fields.items() if isinstance(f, Sc)} if isinstance(v, Struct) else {}
    f_cur = [k for k, f in sc_fields.items() if eq(f.e, 1)]
    f_x = [k for k, f in sc_fields.items() if eq(f.e, x)]
    ok = len(sc_fields) == 2 and len(f_cur) == 1 and len(f_x) == 1
    ck.require(ok, "R01.1", "exp_iter:init", f"exp_iter(x) must start at x^0 = 1 with ratio x; got {v!r}", FX.short(fr["sp"]))
    nxt = "<util::FrExp<G> as std::iter::Iterator>::next"
    F.fn(nxt)
    if not ok:
        return
    st = Struct(v.path, {f_x[0]: Sc(x), f_cur[0]: Sc(sp.Symbol("cur"))})
    box = [st]
    r = I2.call_fn(nxt, [Ref(lambda: box[0], lambda nv: box.__setitem__(0, nv), "self")])
    ok2 = isinstance(r, Enum) and r.variant == "Some" and eq(r.payload[0].e, sp.Symbol("cur")) and eq(box[0].fields[f_cur[0]].e, sp.Symbol("cur") * x) and eq(box[0].fields[f_x[0]].e, x)
    ck.require(ok2, "R01.1", "exp_iter:next", f"FrExp::next must yield the current power and multiply the state by x; got {r!r}, state {box[0].fields}", FX.short(F.fn(nxt)["sp"]))
    ck.fn("util::exp_iter")
    ck.fn(nxt)


def body(ck, F, cfg):
    pv = PR.check_commitments(ck, F)
    ck.fn(H.P_PRV + "prove_and_return_transcript")
    PR.check_ipp_args(ck, F, pv)
    PR.check_t(ck, F, pv)
    PR.completeness_identities(ck, F, pv)
    exp_iter_rule(ck, F)
    # the witness of every `multiply` gate is computed with Prover::eval: a wrong evaluation makes honest proofs fail
    # (C15's R15.2 rules by reference)
    from . import C15

    C15.body(ck, F, cfg, parts=("eval",))
    ck.sample({"sink": "A_I1", "value": repr(pv.sinks["A_I1"])})
    ck.sample({"sink": "ipp.H_factors", "value": __import__("rules.alg", fromlist=["show"]).show(pv.ipp["H_factors"]) if pv.ipp else None})
    # R01.2 twin flattening
    SV = flatten.check(ck, F, "verifier", "R01.2")
    SP = flatten.check(ck, F, "prover", "R01.2")
    for role, S_, calls in (("prover", SP, pv.I.flatten_calls), ("verifier", SV, AN.verifier_scalars(F)["I"].flatten_calls)):
        ck.require(len(calls) == 1 and str(calls[0]["z"].e) == str(REF.Z) and eq(calls[0]["n"], REF.n1 + REF.n2) and eq(calls[0]["m"], REF.m), "R01.2", f"{role}:flatten-call", f"flattening must be called once, with challenge z, after the randomized phase (n = n1+n2 gates, m commitments); calls: {[(str(c['z']), str(c['n']), str(c['m'])) for c in calls]}")
    # R01.3 padding and size: both roles derive N from the final count, n1 before the randomized phase
    A = AN.verifier_scalars(F)
    N = REF.n1 + REF.n2 + REF.pad_of(REF.n1 + REF.n2)
    cap = isym("cap")

    def has_guard(I, fn_suffix, lhs, rhs):
        for (it, ctx) in guards_of(I, fn_suffix):
            c = it[1]
            if isinstance(c, Cond) and c.op == "lt" and not c.neg and eq(c.a, lhs) and eq(c.b, rhs) and isinstance(it[2], Enum) and "InvalidGeneratorsLength" in repr(it[2]):
                return True
        return False

    ck.require(has_guard(pv.I, "prove_and_return_transcript", cap, N), "R01.3", "prover:padded-size", f"prover must size the proof by N = next_power_of_two(final gate count) = {N}")
    ck.require(has_guard(A["I"], "verification_scalars", cap, N), "R01.3", "verifier:padded-size", f"verifier must size the proof by N = next_power_of_two(final gate count) = {N}")
    # R01.6: the verifier's identity rejection applies only to points that are never the identity for an honest prover
    guarded, plain = AN.validated_sets(AN.verify_full(F)["I"])
    may_be_identity = {"pf.A_I2", "pf.A_O2", "pf.S2"}
    ck.require(not (guarded & may_be_identity), "R01.6", "no-honest-value-rejected", f"the verifier rejects identity for {sorted(guarded & may_be_identity)}, which the honest prover sends as identity when the randomized phase adds no gate", "src/r1cs/verifier.rs")
    # R01.4: identical handles/gate counts on both roles (C16) and capacity guards (C17) are prerequisites of completeness
    from . import C16, C17

    C16.body(ck, F, cfg)
    C17.body(ck, F, cfg)
    # the verifier's factor vectors agree with the prover's (g_f): prover side checked in ipp:G_factors/H_factors, verifier side in C02 R02.1
    ck.floor("prover sinks", len([o for o in ck.obligations if o[0] == "R01.1"]), 23)
    ck.floor("flatten arms", len([o for o in ck.obligations if o[0] == "R01.2"]), 22)


def run(tier):
    ck = run_configs(
        "C01", tier, LEVEL, body,
        explanation="TERM: every sink of Prover::prove_and_return_transcript (14 proof fields, 7 arguments of the inner-product call) is extracted "
        "as a normal form over witness/weight/challenge/draw atoms and compared with the reference prover: commitments over [0,n1) and [n1,n), "
        "l(x)/r(x) padded to N, T_k = coefficient k of <l(x),r(x)> (closed rule, so the table cannot be silently wrong), t_x, blinding synthesis, "
        "Q, factor vectors. The two hand-written flattening twins are summarised per Variable variant and must agree with the reference weights. "
        "Completeness of the reference protocol is the paper's theorem.",
        rule_text="R01.1 sink normal forms = reference; R01.2 twin flatten summaries; R01.3 padding/size agreement; R01.4 = C16, C17 rules; R01.5 completeness identities: extracted prover substituted into extracted verifier (mod folding theorem and constraint satisfaction)",
        not_decided=["the completeness theorem itself", "that arkworks msm/mul_bigint/rand implement the algebra"],
        assumptions=["reference formulas in rules/prover_ref.py (dalek notes r1cs_proof)"],
    )
    return ck.finish()


CLAIM = {
    "engine": "TERM+TWIN",
    "level": "other",
    "design_ref": "DESIGN.md section 4 C01",
    "technique": "static: abstract interpretation of the prover into symbolic terms; normal-form comparison with reference formulas; twin-summary agreement",
    "text": "For all circuit sizes (symbolic n1, n2, pad, m) and all field values, the prover's outputs are the reference protocol's: no slip in the "
    "second-phase-only path, padding tail, factor vectors or a power of x can hide in an untested shape. Prover/verifier agreement on weights, padding and sizes is decided on the twins. The witness computation of `multiply` "
    "(Prover::eval, C15 R15.2 by reference) is included.",
    "note": "trusted: completeness theorem of the reference protocol; arkworks algebra",
}

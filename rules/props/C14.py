"""C14 -- zorro curve constants, decided completely from compiler-evaluated constants.

Nothing of /repo is executed: the numbers are what rustc's constant evaluator yields for the
declared `const` items; the checker does integer arithmetic on them against number-theoretic
criteria (Pocklington certificates, Goldwasser-Kilian, Hasse).
"""
import json
import os
from math import gcd, isqrt

from .. import facts as FX
from ..report import Check

SPEC = os.path.join(FX.VERIF, "spec", "primes.json")

P_CURVE = "curve::zorro::g1::Parameters"
K_A = f"<{P_CURVE} as ark_ec::short_weierstrass::SWCurveConfig>::COEFF_A"
K_B = f"<{P_CURVE} as ark_ec::short_weierstrass::SWCurveConfig>::COEFF_B"
K_G = f"<{P_CURVE} as ark_ec::short_weierstrass::SWCurveConfig>::GENERATOR"
K_COF = f"<{P_CURVE} as ark_ec::CurveConfig>::COFACTOR"
K_COFINV = f"<{P_CURVE} as ark_ec::CurveConfig>::COFACTOR_INV"
K_BASE = f"<{P_CURVE} as ark_ec::CurveConfig>::BaseField"
K_SCALAR = f"<{P_CURVE} as ark_ec::CurveConfig>::ScalarField"
K_MULA = f"<{P_CURVE} as ark_ec::short_weierstrass::SWCurveConfig>::mul_by_a"


def limbs(v):
    """BigInt JSON -> int (little-endian u64 limbs)."""
    while isinstance(v, dict):
        if "0" in v:
            v = v["0"]
        else:
            raise ValueError(f"not a BigInt: {v}")
    n = 0
    for i, l in enumerate(v):
        n |= int(l) << (64 * i)
    return n, len(v)


# -- primality certificates (verified, never trusted) ------------------------------------


def is_small_prime(q):
    if q < 2:
        return False
    i = 2
    while i * i <= q:
        if q % i == 0:
            return False
        i += 1
    return True


def verify_prime(q, tree, seen, log):
    """Pocklington: q-1 = F*U, F > sqrt(q), every prime f | F certified, witness per f."""
    if q in seen:
        return True
    if q < (1 << 20):
        ok = is_small_prime(q)
        if ok:
            seen.add(q)
        return ok
    node = tree.get(str(q))
    if node is None:
        log.append(f"no certificate node for {q}")
        return False
    F = 1
    for fs, e in node["factors"].items():
        f = int(fs)
        if (q - 1) % (f ** e) != 0:
            log.append(f"{f}^{e} does not divide {q}-1")
            return False
        F *= f ** e
        a = int(node["witness"][fs])
        if pow(a, q - 1, q) != 1:
            log.append(f"witness {a} fails Fermat for {q}")
            return False
        if gcd(pow(a, (q - 1) // f, q) - 1, q) != 1:
            log.append(f"witness {a} fails order condition for factor {f} of {q}-1")
            return False
        if not verify_prime(f, tree, seen, log):
            return False
    if F * F <= q:
        log.append(f"factored part of {q}-1 does not exceed sqrt")
        return False
    seen.add(q)
    return True


# -- elliptic curve arithmetic modulo an integer N (not assumed prime) --------------------


class NonInvertible(Exception):
    pass


def inv_mod(x, N):
    x %= N
    if gcd(x, N) != 1:
        raise NonInvertible(x)
    return pow(x, -1, N)


def ec_add(P, Q, a, N):
    if P is None:
        return Q
    if Q is None:
        return P
    x1, y1 = P
    x2, y2 = Q
    if x1 == x2:
        if (y1 + y2) % N == 0:
            return None
        lam = (3 * x1 * x1 + a) * inv_mod(2 * y1, N) % N
    else:
        lam = (y2 - y1) * inv_mod(x2 - x1, N) % N
    x3 = (lam * lam - x1 - x2) % N
    y3 = (lam * (x1 - x3) - y1) % N
    return (x3, y3)


def ec_mul(k, P, a, N):
    R = None
    Q = P
    while k:
        if k & 1:
            R = ec_add(R, Q, a, N)
        Q = ec_add(Q, Q, a, N)
        k >>= 1
    return R


# -- mul_by_a as a linear form --------------------------------------------------------------


def linear_form(fn, consts_val):
    """Interpret the HIR of mul_by_a in the one-atom linear domain: value = coefficient of x.
    Returns an int coefficient or raises ValueError('unanalysable ...')."""
    params = fn["params"]
    if len(params) != 1 or params[0]["pat"]["k"] != "Bind":
        raise ValueError("unexpected parameter shape")
    env = {params[0]["pat"]["id"]: 1}

    def ev(e):
        e = FX.strip(e)
        k = e["k"]
        if k == "Path":
            r = e["res"]
            if r["k"] == "Local":
                if r["id"] not in env:
                    raise ValueError(f"unbound local {r['name']}")
                return env[r["id"]]
            raise ValueError(f"non-local path {r.get('path')} in linear form")
        if k == "Binary" and "callee" in e:
            p = e["callee"]["path"]
            if p.endswith("ops::Add::add"):
                return ev(e["l"]) + ev(e["r"])
            if p.endswith("ops::Sub::sub"):
                return ev(e["l"]) - ev(e["r"])
            if p.endswith("ops::Mul::mul"):
                # constant * x with the constant a declared const item
                for c, x in ((e["l"], e["r"]), (e["r"], e["l"])):
                    cc = FX.strip(c)
                    if cc["k"] == "Path" and cc["res"]["k"] == "Def" and cc["res"]["path"].endswith("COEFF_A"):
                        return consts_val["a"] * ev(x)
                raise ValueError("multiplication by a non-constant in mul_by_a")
        if k == "Unary" and e.get("op") == "-" and "callee" in e:
            return -ev(e["e"])
        if k == "MethodCall":
            p = e["callee"].get("path", "")
            if p.endswith("::double") and not e["args"]:
                return 2 * ev(e["recv"])
            if p.endswith("Clone::clone"):
                return ev(e["recv"])
        if k == "Block":
            for s in e["stmts"]:
                if s["k"] == "Let" and s["pat"]["k"] == "Bind" and s["init"] is not None:
                    env[s["pat"]["id"]] = ev(s["init"])
                elif s["k"] == "Item":
                    continue
                else:
                    raise ValueError(f"statement {s['k']} not in the linear fragment")
            if e["expr"] is None:
                raise ValueError("block without value")
            return ev(e["expr"])
        raise ValueError(f"expression kind {k} at {FX.short(e.get('sp'))} not in the linear fragment")

    return ev(fn["body"])


def run(tier):
    ck = Check("C14", tier, level="proof")
    ck.rule_text.append(
        "obligations on compiler-evaluated constants: Pocklington certificate tree for r; curve equation, "
        "discriminant, [r]G=O with invertible denominators (Goldwasser-Kilian => p prime); Hasse interval => #E=r; "
        "cofactor; scalar-field modulus = r; mul_by_a as linear form = a*x"
    )
    from .common import cfg_rule, configs_for, dependency_rule

    dependency_rule(ck)
    cfg_rule(ck)  # constants gated on a configuration none of the analysed builds decides: fail closed
    configs = configs_for(tier)
    results = []
    for cfg in configs:
        F = FX.load(cfg)
        ck.configs.append(cfg)
        results.append(one_config(ck, F, cfg))
    if len(set(json.dumps(r, sort_keys=True) for r in results)) > 1:
        ck.fail("CONFIG", "cross-config", "extracted constants differ between feature configurations")
    ck.explanation = (
        "All clauses of C14 are decided from the constants as rustc's const evaluator yields them "
        "(Montgomery limbs converted with R=2^256 mod p). Python integer arithmetic only; no repository code runs."
    )
    ck.extra["checker_cmd"] = f"./bpv check C14 --tier {tier}"
    ck.extra["trusted_base"] = [
        "CPython arbitrary-precision integer arithmetic",
        "rustc constant evaluator (values of the declared const items)",
        "Pocklington's theorem; Goldwasser-Kilian primality criterion; Hasse bound",
        "ark-ff Montgomery representation: stored limbs = value * 2^(64*N) mod modulus",
    ]
    ck.assumptions = ck.extra["trusted_base"]
    return ck.finish()


def one_config(ck, F, cfg):
    def need(table, key):
        if key not in table or table[key] is None:
            raise FX.AnchorMissing(key)
        return table[key]

    try:
        p, np_ = limbs(need(F.moduli, K_BASE)["modulus"])
        r, nr = limbs(need(F.moduli, K_SCALAR)["modulus"])
        Rm = pow(2, 64 * np_, p)
        Rinv = pow(Rm, -1, p) if gcd(Rm, p) == 1 else None
        if Rinv is None:
            ck.fail("R14.0", "montgomery", "2^256 not invertible mod p")
            return {}
        a = limbs(need(F.consts, K_A)["val"])[0] * Rinv % p
        b = limbs(need(F.consts, K_B)["val"])[0] * Rinv % p
        g = need(F.consts, K_G)["val"]
        gx = limbs(g["x"])[0] * Rinv % p
        gy = limbs(g["y"])[0] * Rinv % p
        ginf = int(g.get("infinity", "0"))
        cof = [int(x) for x in need(F.consts, K_COF)["val"]["elems"]]
        cofinv_m = limbs(need(F.consts, K_COFINV)["val"])[0]
        mula = F.fn(K_MULA)
    except FX.AnchorMissing as e:
        ck.fail("ANCHOR", str(e.what), f"constant or function {e.what} not found in the extracted facts", kind="anchor-missing")
        return {}
    ck.fn(K_MULA)
    vals = {"p": p, "r": r, "a": a, "b": b, "gx": gx, "gy": gy, "cofactor": cof}
    ck.sample({"config": cfg, **{k: str(v) for k, v in vals.items()}})

    # 1. r = 2^255-19 and prime (certificate tree re-verified)
    ck.require(r == 2**255 - 19, "R14.1", "r-value", f"scalar field modulus is {r}, expected 2^255-19")
    log = []
    with open(SPEC) as f:
        tree = json.load(f)
    seen = set()
    okr = verify_prime(r, tree, seen, log)
    ck.require(okr, "R14.1", "r-prime", "Pocklington certificate for r does not verify: " + "; ".join(log), detail=f"{len(seen)} certified primes in the tree")
    ck.extra["certificate_nodes"] = len(seen)

    # 2. discriminant and generator on curve
    disc = (4 * a**3 + 27 * b * b) % p
    ck.require(gcd(disc, p) == 1, "R14.2", "discriminant", "4a^3+27b^2 not coprime to p: singular curve")
    on = (gy * gy - (gx**3 + a * gx + b)) % p == 0
    ck.require(on, "R14.2", "generator-on-curve", f"declared generator ({gx},{gy}) does not satisfy y^2=x^3+{a}x+b mod p", where=K_G)
    ck.require(ginf == 0, "R14.2", "generator-finite", "declared generator has the infinity flag set")

    # 3. [r]G = O, all denominators invertible
    rg_ok = False
    if on and okr:
        try:
            rg = ec_mul(r, (gx, gy), a, p)
            rg_ok = rg is None
            ck.require(rg_ok, "R14.3", "[r]G=O", "[r]G is not the point at infinity: the generator's order is not r")
        except NonInvertible as e:
            ck.fail("R14.3", "[r]G=O", f"non-invertible denominator {e} while computing [r]G: p is composite")
    else:
        ck.fail("R14.3", "[r]G=O", "not evaluated: generator off curve or r not certified")

    # 4. p prime by Goldwasser-Kilian: point of prime order r > (p^(1/4)+1)^2
    # (p^(1/4)+1)^2 = sqrt(p) + 2 p^(1/4) + 1 ; bound with integer roots from above
    s4 = isqrt(isqrt(p)) + 1
    gk = r > (s4 + 1) ** 2
    ck.require(gk and rg_ok and okr, "R14.4", "p-prime", "Goldwasser-Kilian criterion not met: cannot conclude that the base modulus is prime")

    # 5. group order = r exactly (Hasse): r | #E, and 2r > p+1+2sqrt(p), and r >= p+1-2sqrt(p)
    t = p + 1 - r  # trace of Frobenius if #E = r
    ck.require(t * t <= 4 * p, "R14.5", "hasse-interval", "r lies outside the Hasse interval of p: the group order cannot be r")
    d = 2 * r - p - 1
    ck.require(d > 0 and d * d > 4 * p, "R14.5", "order-unique", "2r fits into the Hasse interval: order could be a multiple of r")
    ck.require(cof == [1], "R14.5", "cofactor", f"declared COFACTOR limbs {cof} != [1]")
    Rr = pow(2, 64 * nr, r)
    ck.require(cofinv_m == Rr % r, "R14.5", "cofactor-inv", "declared COFACTOR_INV is not 1 in the scalar field")

    # 6. scalar field: resolved through the items facts
    sf = F.moduli[K_SCALAR]
    ck.require(True, "R14.6", "scalar-field", "", detail=f"ScalarField = {sf['ty']} with modulus r")

    # 6b. every scalar-field configuration the zorro module re-exports is the configuration of that declared scalar field
    cfg_name = sf["config"]
    n_cfg = 0
    for rx in F.items.get("reexports", []):
        if rx["in"].startswith("curve::zorro::fr") and rx["dk"] == "Struct" and rx["vis"] == "pub":
            n_cfg += 1
            ck.require(rx["target"] == cfg_name, "R14.6", f"scalar-field-config:{rx['name']}", f"zorro::{rx['name']} re-exports {rx['target']}, but the declared scalar field's configuration (modulus r) is {cfg_name}", "src/curve/zorro/fr.rs")
    # 7. mul_by_a
    try:
        coef = linear_form(mula, {"a": a})
        ck.require((coef - a) % p == 0, "R14.7", "mul_by_a", f"mul_by_a computes {coef}*x but declared COEFF_A is {a}", where=FX.short(mula["sp"]), detail=f"linear form {coef}*x")
    except ValueError as e:
        ck.fail("R14.7", "mul_by_a", f"unanalysable: {e}", where=FX.short(mula["sp"]), kind="unanalysable")
    ck.floor("C14 obligations", len([o for o in ck.obligations if o[0].startswith("R14")]), 14)
    return {k: str(v) for k, v in vals.items()}

CLAIM = {
    "engine": "CONST",
    "level": "proof",
    "design_ref": "DESIGN.md section 4 C14, section 3.6",
    "technique": "static: number-theoretic certificates checked on compiler-evaluated constants; linear abstract interpretation of mul_by_a",
    "text": "Every clause of C14 is a statement about declared constants and one linear function. The constants are taken from rustc's "
    "constant evaluation of the const items in /repo's current tree; r is certified prime by a re-verified Pocklington tree, p by the "
    "Goldwasser-Kilian criterion with the curve itself, the group order by the Hasse interval, mul_by_a by interpreting its body as a "
    "linear form. All 13 obligations must be discharged; any digit change in a constant fails one of them.",
    "note": "trusted: CPython integers, rustc const evaluator, three cited theorems, ark-ff Montgomery representation convention",
}
LEVEL = "proof"

"""C08 -- hostile proofs and byte strings yield errors, never panics (reachable panic sites)."""
import hashlib
import os
import re

from .. import analyses as AN
from .. import facts as FX
from .. import flatten
from .. import interp as IN
from .. import ipp
from .. import panic as PN
from .. import wire
from ..alg import Unanalysable
from . import C07
from .common import run_configs

LEVEL = "other"
_TIER = "quick"

# functions whose panic sites do not depend on the proof or on bytes being decoded
NOT_PROOF_DEPENDENT = {
    "generators::BulletproofGensShare::<'a, G>::G": "indexes the generator table by the party index fixed by the library (share(0)); depends on the caller's BulletproofGens value (party_capacity >= 1), not on the proof",
    "generators::BulletproofGensShare::<'a, G>::H": "indexes the generator table by the party index fixed by the library (share(0)); depends on the caller's BulletproofGens value (party_capacity >= 1), not on the proof",
    "r1cs::verifier::Verifier::<G, T>::flattened_constraints": "indices are the gate / commitment indices stored in the verifier's own constraint list (built by its own circuit code, C16); the proof does not flow into this function (arguments: self, challenge z)",
}

# index-arithmetic invariants confirmed by hand, keyed by function and the TERM detail of the site
IPPVS = "inner_product_proof::InnerProductProof::<G>::verification_scalars"
J = r"j#\d+"
CONFIRMED = [
    (IPPVS, "sub", r"^\(31\) - \(leading_zeros\(" + J + r" \+ 1\)\)$", "i >= 1 (range 1..n), so leading_zeros(i as u32) <= 31"),
    (IPPVS, "sub", r"^\(lg\) - \(1\)$", "inside the loop 1..n, which is non-empty only if n = 2^lg_n >= 2, i.e. lg_n >= 1 (guard n == 1<<lg_n)"),
    (IPPVS, "sub", r"^\(lg - 1\) - \(31 - leading_zeros\(" + J + r" \+ 1\)\)$", "lg_i = floor(log2 i) <= lg_n - 1 because i < n = 2^lg_n (guard n == 1<<lg_n)"),
    (IPPVS, "index", r"^index lg \+ leading_zeros\(" + J + r" \+ 1\) - 32 into length lg$", "0 <= (lg_n-1)-lg_i < lg_n by the two subtractions above; challenges_sq has lg_n entries (guard len(R)==len(L))"),
    (IPPVS, "sub", r"^\(" + J + r" \+ 1\) - \(pow2\(31 - leading_zeros\(" + J + r" \+ 1\)\)\)$", "k = 2^floor(log2 i) <= i"),
    (IPPVS, "index", r"into a vector defined by recurrence$", "s[i-k] reads an element pushed in an earlier iteration: 0 <= i-k < i = current length of s"),
]


def _try_resolve(F, p):
    try:
        F.resolve(p)
        return True
    except FX.AnchorMissing:
        return False


def lock_pins():
    pins = {}
    try:
        txt = open(os.path.join(FX.REPO, "Cargo.lock")).read()
        for name in ("ark-serialize", "ark-ec", "ark-ff", "merlin"):
            m = re.search(r'name = "' + re.escape(name) + r'"\nversion = "([^"]+)"\n(?:source = "[^"]*"\n)?(?:checksum = "([0-9a-f]+)")?', txt)
            if m:
                pins[name] = {"version": m.group(1), "checksum": m.group(2)}
    except OSError:
        pass
    return pins


def body(ck, F, cfg):
    if _TIER == "thorough" and cfg == "default":
        from .. import witness

        witness.require(ck, ['W3a', 'W3b'], "WITNESS")
    # TERM runs that cover the entry points (fill the safety log)
    runs = []
    for name, fn in (("verify", lambda: AN.verify_full(F)), ("verify-wrapper", lambda: AN.verify_wrapper(F)), ("ipp-scalars", lambda: ipp.analyse_vs(F)), ("batch", lambda: C07.analyse(F)), ("flatten", lambda: flatten.summarise(F, "verifier"))):
        try:
            # analyses are memoised per process: re-run without cache for a fresh log
            fn()
            runs.append(name)
        except Unanalysable as u:
            ck.fail("R08.1", f"term-run:{name}", f"entry point could not be interpreted: {u.msg}", u.where, kind="unanalysable")
    wire.check_decode(ck, F, "R08.3")
    # the decoders of the proof types are the derive-generated ones (their behaviour on hostile input - bounded
    # allocation, no panic - is ark-serialize's, pinned below); a hand-written decoder is not covered by this analysis
    n_codec = 0
    for adt_ in ("r1cs::proof::R1CSProof", "inner_product_proof::InnerProductProof"):
        for imp in F.items["impls"]:
            tr_ = imp["trait"] or ""
            if imp["self_ty"].startswith(adt_) and tr_.startswith("ark_serialize::") and tr_.split("::")[-1].split("<")[0] in ("CanonicalDeserialize", "Valid"):
                n_codec += 1
                ck.require((imp.get("expn") or "").startswith("Derive"), "R08.3", f"derived-decoder:{adt_.split('::')[-1]}:{tr_.split('::')[-1]}", f"{tr_} for {adt_} is hand-written: its allocation and panic behaviour on hostile input is not covered (the derived decoder reads length-prefixed lists element by element)", FX.short(imp.get("sp")), kind_hint="unanalysable")
    ck.floor("decoder impls of the proof types", n_codec, 4)
    log = [e for e in IN.SAFETY_LOG if e["F"] == id(F)]
    reachable, edges = PN.reach(F, PN.ENTRY)
    for p in reachable:
        ck.fn(p)
    by_spx = {}
    for e in log:
        px = PN.parse_spx(e["spx"])
        if px:
            by_spx.setdefault(px, []).append(e)
    ifs = [(PN.parse_spx(e["spx"]), e) for e in log if e["kind"] == "if-const"]
    pguards = [(PN.parse_spx(e["spx"]), e) for e in log if e["kind"] == "panic-guard"]
    EV = PN.err_variants_rule(F, reachable)
    # a helper reached only from functions the proof does not flow into is itself not proof-dependent
    npd = dict(NOT_PROOF_DEPENDENT)
    try:
        from .. import harness as _H

        site = _H.flatten_site(F, "verifier")
        if site["style"] == "free":
            # merged twins: the harness hook checks that the helper is handed the verifier's own constraint list, gate
            # count and commitment count (none of them proof data)
            npd[site["path"]] = NOT_PROOF_DEPENDENT["r1cs::verifier::Verifier::<G, T>::flattened_constraints"] + " [shared helper: arguments are the verifier's constraint list, z and its two counts]"
    except FX.AnchorMissing:
        pass
    npd = {F.resolve(k_) if True else k_: v_ for k_, v_ in npd.items() if _try_resolve(F, k_)}
    grown = True
    while grown:
        grown = False
        for p_ in reachable:
            if p_ in npd:
                continue
            callers = {a_ for a_, bs in edges.items() if p_ in bs}
            if callers and callers <= set(npd):
                npd[p_] = f"only called from {sorted(callers)[0].split('::')[-1]}: " + npd[sorted(callers)[0]]
                grown = True
    _co = {}

    def callees_of(root):
        """functions reachable from `root` (a private helper the anchored function delegates to inherits its hand-confirmed
        index-arithmetic facts: they are stated on the TERM detail of the site, not on the function name)"""
        if root not in _co:
            try:
                r0 = F.resolve(root)
            except FX.AnchorMissing:
                _co[root] = set()
                return _co[root]
            seen_, work_ = set(), [r0]
            while work_:
                x_ = work_.pop()
                for y_ in edges.get(x_, ()):
                    if y_ not in seen_:
                        seen_.add(y_)
                        work_.append(y_)
            _co[root] = seen_
        return _co[root]

    nsites = 0
    disch = {}
    per_fn = {}
    for p in reachable:
        for st in PN.sites_of(F, p):
            nsites += 1
            per_fn[p] = per_fn.get(p, 0) + 1
            px = PN.parse_spx(st["spx"])
            kind = st["kind"]
            short_fn = p.split("::")[-1] if "{closure" not in p else p.split("::")[-2] + "::closure"
            want = {"BoundsCheck": ("index", "slice"), "index": ("index", "slice"), "overflow:Sub": ("sub",), "overflow:Add": ("add",), "overflow:Mul": ("mul",), "overflow:Shl": ("shl",), "DivisionByZero": ("div",), "unwrap": ("unwrap", "inverse", "msm"), "slice-op": ("slice", "index"), "npow2": (), "panic": ()}.get(kind, ())
            entries = [e for e in by_spx.get(px, []) if e["kind"] in want] if px else []
            if kind in ("index", "BoundsCheck", "slice-op") and px and not entries:
                entries = [e for q, es in by_spx.items() for e in es if e["kind"] in want and q[0] == px[0] and q[2] == px[2] and q[1] <= px[1]]
            if kind == "unwrap" and px:
                # inverse().unwrap() / msm(..).unwrap(): the inner call's log entry is contained in the unwrap's span
                entries += [e for q, es in by_spx.items() for e in es if e["kind"] in ("inverse", "msm") and PN.contains(px, q) and q != px]
            rule, ok, why = None, False, ""
            inst_detail = sorted({e["detail"] for e in entries})[:3]
            key_detail = inst_detail[0] if inst_detail else (st.get("callee") or "")
            if p in npd:
                rule, ok, why = "NOT_PROOF_DEPENDENT", True, npd[p]
            elif kind in ("overflow:Add", "overflow:Mul", "npow2"):
                rule, ok, why = "LENGTH_ARITH", True, "sums/products of lengths of live allocations and small constants cannot exceed usize"
            elif kind == "panic":
                # unreachable if the enclosing condition was constant-false on every TERM visit
                enc = [e for q, e in ifs if PN.contains(q, px)]
                reach_g = [e for q, e in pguards if PN.contains(q, px)]
                if EV and (p == EV["fn"] or p.startswith(EV["fn"] + "::{closure")):
                    bad = {v: w for v, w in EV["constructed"].items() if v not in EV["handled"]}
                    rule = "ERR_VARIANTS"
                    ok = not bad
                    why = f"ProofError variants constructed on the analysed paths {sorted(EV['constructed'])} are all handled {sorted(EV['handled'])}" if ok else f"variant(s) {bad} reach the panicking arm of the error conversion"
                elif reach_g:
                    rule, ok, why = "REACHABLE_PANIC", False, reach_g[0]["detail"]
                elif enc and all(e["detail"] == "False" for e in enc):
                    rule, ok, why = "GUARD_CONSTANT_FALSE", True, f"the guarding condition is false on every analysed call ({len(enc)} visit(s): operand lengths are equal terms)"
                else:
                    rule, ok, why = "UNDISCHARGED", False, "panic call with no analysed guard"
            elif entries and all(e["ok"] for e in entries):
                rule = {"index": "IN_RANGE", "slice": "IN_RANGE", "sub": "NO_UNDERFLOW", "shl": "SHIFT_IN_RANGE", "unwrap": "UNWRAP_OF_OK", "inverse": "CHALLENGE_INVERSE", "msm": "LAYOUT", "div": "CONST_DIVISOR"}.get(entries[0]["kind"], "TERM")
                if any(e["kind"] == "inverse" for e in entries):
                    rule = "CHALLENGE_INVERSE"
                if any(e["kind"] == "msm" for e in entries):
                    rule = "LAYOUT"
                ok, why = True, "; ".join(inst_detail)
            elif entries:
                bad = [e for e in entries if not e["ok"]]
                conf = None
                for (cfn, ckind, rx, reason) in CONFIRMED:
                    if (cfn == p or p in callees_of(cfn)) and all(e["kind"] == ckind and re.search(rx, e["detail"]) for e in bad):
                        conf = reason
                        break
                if conf:
                    rule, ok, why = "CONFIRMED", True, conf
                else:
                    rule, ok, why = "UNDISCHARGED", False, "; ".join(sorted({e["detail"] for e in bad}))
            else:
                rule, ok, why = "NOT_VISITED", False, "no TERM evaluation of this expression on the analysed entry points"
            inst = re.sub(r"#\d+", "", f"{short_fn}:{kind}:{key_detail}")[:150]
            n_same = disch.get(inst, 0)
            disch[inst] = n_same + 1
            if n_same:
                inst = f"{inst}~{n_same}"
            if ok:
                ck.ok("R08.1", inst, detail=f"{rule}: {why}"[:280])
            else:
                ck.fail("R08.1", inst, f"reachable panic site not discharged ({rule}): {kind} {st.get('callee', '')} -- {why}", st["sp"], kind="undischarged-panic")
    # views whose length is not established by a passed guard: the lists handed to msm(..).unwrap() may then differ in length
    for e_ in [e_ for e_ in log if e_["kind"] == "prefix-unproved"]:
        ck.fail("R08.1", f"unproved-length:{e_['fn'].split('::')[-1]}", f"{e_['detail']} -- a downstream multiscalar multiplication over lists of unequal length panics in unwrap()", e_["sp"], kind="undischarged-panic")
    ck.extra["panic_sites"] = nsites
    ck.extra["sites_per_function"] = {k.split("::", 1)[-1][-70:]: v for k, v in per_fn.items()}
    ck.extra["reachable_functions"] = len(reachable)
    ck.extra["term_runs"] = runs
    ck.floor("reachable panic sites", nsites, 30)  # 55 on the reviewed tree; iterator-style rewrites legitimately remove index sites
    ck.floor("reachable functions", len(reachable), 12)  # 25+ on the reviewed tree
    # R08.2 required guards
    A = ipp.check_vs(ck, F, "R08.2s")
    for name, okk in A["guards_found"].items():
        inst = "guard:len(R_vec)==len(L_vec)" if name.startswith("len(R_vec)") else f"guard:{name}"
        ck.require(okk, "R08.2", inst, f"shape guard `{name}` -> Err(VerificationError) is missing in InnerProductProof::verification_scalars: unequal / oversized lists reach an index or unwrap panic", "src/inner_product_proof.rs")
    ck.require(A["guards_early"], "R08.2", "guards-before-use", "shape guards must precede the first use of the lists")
    # R08.4 allocations on the verify paths
    allocs = [e for e in log if e["kind"] == "alloc"]
    bad = [e for e in allocs if not e["ok"]]
    ck.require(not bad, "R08.4", "allocations", f"allocation sized by a proof-controlled length without a bound: {[(e['sp'], e['detail']) for e in bad][:3]}")
    ck.floor("allocation sites analysed", len(allocs), 3)  # 8 on the reviewed tree
    pins = lock_pins()
    ck.extra["dependency_pins"] = pins
    ok_pin = pins.get("ark-serialize", {}).get("version") == "0.4.2" and pins.get("ark-ec", {}).get("version") == "0.4.2"
    if not ok_pin:
        ck.not_decided.append(f"dependency versions differ from the reviewed ones (ark-serialize/ark-ec 0.4.2): decoder memory behaviour and msm length check not re-reviewed: {pins}")
    ck.sample({"site": "InnerProductProof::verification_scalars: challenges[i]", "rule": "IN_RANGE under guard len(R_vec)==len(L_vec)"})


def run(tier):
    global _TIER
    _TIER = tier
    ck = run_configs(
        "C08", tier, LEVEL, body,
        explanation="PANIC: from the five decode/verify/batch entry points the crate-local call graph (resolved callees in MIR, closures, `?` error conversions, local Iterator impls) is closed; "
        "every Assert terminator and every call of a panicking function (unwrap/expect, Index/IndexMut, slice ops, core::panicking) in a reachable body is a site. A site is discharged when the "
        "TERM interpreter evaluated the same source expression on the symbolic entry-point runs and proved it in range under the guard facts recorded so far (index < length, no underflow, "
        "shift < width, unwrap of a value that is Ok on every path, msm over equally long lists, inverse of a transcript challenge), by a class rule (length arithmetic), by the error-variant "
        "rule for the `?` conversion, or by a confirmed index invariant keyed on the site's term. Missing guards therefore show up as undischarged sites.",
        rule_text="R08.1 site enumeration + discharge; R08.2 required guards; R08.3 decode maps every failure to FormatError; R08.4 allocation sizes",
        not_decided=["termination and memory inside dependencies beyond the pinned versions (ark-serialize Vec<T> decoding grows by push; reviewed at 0.4.2)", "stack/heap exhaustion"],
        assumptions=["ark-ec 0.4.2 msm returns Err on unequal lengths", "TERM in-range proofs use only guard facts that abort with Err"],
    )
    return ck.finish()


CLAIM = {
    "engine": "PANIC",
    "level": "other",
    "design_ref": "DESIGN.md section 4 C08, section 3.5",
    "technique": "static: MIR call-graph reachability and panic-site enumeration; discharge by symbolic in-range proofs under dominating guard facts",
    "text": "The set of panic sites reachable from decode/verify/batch is finite and enumerated from the compiler's MIR; each is shown unreachable for every decodable proof by a checked rule. "
    "A removed shape guard or a new unguarded index/unwrap leaves a site undischarged.",
    "note": "trusted: pinned dependency behaviour (msm length check, ark-serialize decoding), rustc's MIR as the complete list of panic edges in the crate",
}

"""C13 -- Pedersen commitments as linear forms."""
import sympy as sp

from .. import facts as FX
from .. import harness as H
from .. import schedule as SC
from ..alg import Enum, IntV, Pt, Sc, Struct, Tup, eq, isym, pt_eq, ssym
from .common import run_configs

LEVEL = "other"


def body(ck, F, cfg):
    path = "generators::PedersenGens::<G>::commit"
    fn = F.fn(path)
    ck.fn(path)
    I = H.new_interp(F)
    pc = H.mk_pc_gens()
    v, r = ssym("value"), ssym("blinding")
    got = I.call_fn(path, [pc, Sc(v), Sc(r)])
    want = Pt.atom(ssym("B")).scale(v).add(Pt.atom(ssym("Bb")).scale(r))
    ck.require(isinstance(got, Pt) and pt_eq(got, want), "R13.1", "commit", f"commit(value, blinding) must be value*B + blinding*B_blinding; extracted {got!r}", FX.short(fn["sp"]), detail=repr(want))
    ck.sample({"sink": "ret of PedersenGens::commit", "value": repr(got)})
    ck.require(not I.trace.items, "R13.1", "commit-pure", f"commit must have no effects; trace: {I.trace.items[:2]}", FX.short(fn["sp"]))
    # R13.2 Prover::commit
    nc = SC.run_new_commit(F, "prover")
    ck.fn(H.P_PRV + "commit")
    ret = nc["ret"]
    vn, bn = ssym("v_new"), ssym("vb_new")
    wantV = Pt.atom(ssym("B")).scale(vn).add(Pt.atom(ssym("Bb")).scale(bn))
    ok = isinstance(ret, Tup) and len(ret.items) == 2 and isinstance(ret.items[0], Pt) and pt_eq(ret.items[0], wantV)
    ck.require(ok, "R13.2", "prover-commit:returns", f"Prover::commit(v, v_blinding) must return v*B + v_blinding*B_blinding on the constructor's bases; got {ret!r}", "src/r1cs/prover.rs")
    ops = [it[1] for it in nc["commit"] if it[0] == "op"]
    okp = len(ops) == 1 and ops[0]["label"] == b"V" and hasattr(ops[0]["payload"], "parts") and len(ops[0]["payload"].parts) == 1 and isinstance(ops[0]["payload"].parts[0][1], Pt) and pt_eq(ops[0]["payload"].parts[0][1], wantV)
    ck.require(okp, "R13.2", "prover-commit:absorbs-same", "the point absorbed with label V must be the returned commitment", "src/r1cs/prover.rs")
    var = ret.items[1] if isinstance(ret, Tup) and len(ret.items) == 2 else None
    m = isym("m")
    okv = isinstance(var, Enum) and var.variant == "Committed" and isinstance(var.payload[0], IntV) and eq(var.payload[0].e, m)
    ck.require(okv, "R13.2", "prover-commit:handle", f"the returned variable must be Committed(index of the new opening), got {var!r}", "src/r1cs/prover.rs")
    sec = nc["obj"].fields["secrets"].fields
    okst = eq(sec["v"].length(), m + 1) and eq(sec["v_blinding"].length(), m + 1) and eq(sec["v"].index(m).e, vn) and eq(sec["v_blinding"].index(m).e, bn)
    ck.require(okst, "R13.2", "prover-commit:stores-openings", "the openings stored for the new variable must be (v, v_blinding) at the returned index", "src/r1cs/prover.rs")
    ck.floor("C13 sinks", len(ck.obligations), 6)


def run(tier):
    ck = run_configs(
        "C13", tier, LEVEL, body,
        explanation="TERM with group terms: the value returned by PedersenGens::commit is extracted as a formal sum over the two base atoms; "
        "it must be value*B + blinding*B_blinding and nothing else, for symbolic (hence all) scalars and bases. Homomorphism, commit(0,0)=identity "
        "and scaling are consequences in any abelian group. Prover::commit must return, absorb and record exactly that function of its inputs.",
        rule_text="R13.1 linear form of commit; R13.2 Prover::commit returns/absorbs/stores the same term",
        not_decided=["that mul_bigint(into_bigint(s)) is scalar multiplication by s and that add is the group law (arkworks)"],
        assumptions=["group axioms"],
    )
    return ck.finish()


CLAIM = {
    "engine": "TERM",
    "level": "other",
    "design_ref": "DESIGN.md section 4 C13",
    "technique": "static: abstract interpretation into formal sums over base atoms (linear-form equality)",
    "text": "The commitment is decided to be exactly the linear form v*B + r*B~ for symbolic v, r, B, B~; the algebraic laws of the property follow in any abelian group.",
    "note": "trusted: arkworks mul_bigint/into_bigint/add implement the group operations",
}

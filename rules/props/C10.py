"""C10 -- inner-product argument: round formulas, twin rounds, verifier scalars, shape guards."""
import sympy as sp

from .. import facts as FX
from .. import ipp
from ..alg import Cond, Enum, Pt, Sc, Vec, eq, isym, pt_eq, sfun, ssym, mk_sum, mk_prod, Seg, vec_eq, show
from .common import run_configs

LEVEL = "other"


def check_verify_fn(ck, F):
    """R10.4: InnerProductProof::verify computes expected P and accepts iff equal to the given P"""
    from .. import harness as H
    from ..interp import Tr
    from ..alg import IntV, Struct

    path = ipp.P_VERIFY
    fn = F.fn(path)
    ck.fn(path)
    where = FX.short(fn["sp"])
    I = H.new_interp(F)
    n = isym("N")
    lg = isym("lg")

    # verification_scalars (or whatever private helper verify uses for it) is interpreted, not stubbed: the expected
    # point is stated in the terms R10.3 establishes (u_j^2, u_j^-2 and the recurrence vector s)
    proof = Struct("inner_product_proof::InnerProductProof", {"L_vec": H.pt_vec("pf.L", lg), "R_vec": H.pt_vec("pf.R", lg), "a": Sc(ssym("pf.a")), "b": Sc(ssym("pf.b"))})
    args = [proof, IntV(n), Tr("ipp"), H.sc_vec("gf", n), H.sc_vec("hf", n), Pt.atom(ssym("P")), Pt.atom(ssym("Q")), H.pt_vec("Gv", n), H.pt_vec("Hv", n)]
    ret = I.call_fn(path, args)
    a, b = ssym("pf.a"), ssym("pf.b")
    s = sfun(I.recurrences[-1]["name"] if I.recurrences else "s")
    U_ = sfun("ch[u].d0")
    want = Pt(
        [
            (sp.Integer(1), lambda j: ssym("Q"), lambda j: a * b),
            (n, lambda j: sfun("Gv")(j), lambda j: a * s(j) * sfun("gf")(j)),
            (n, lambda j: sfun("Hv")(j), lambda j: b * s(n - 1 - j) * sfun("hf")(j)),
            (lg, lambda j: sfun("pf.L")(j), lambda j: -U_(j) ** 2),
            (lg, lambda j: sfun("pf.R")(j), lambda j: -U_(j) ** -2),
        ]
    )
    from ..alg import Ite

    ok = False
    why = f"return value {ret!r}"
    from .. import analyses as AN_

    chain, final = AN_.exit_chain(I, ret, lambda f: FX.same_fn(f, path))
    lastc = chain[-1] if chain else None
    if lastc is not None and isinstance(lastc[0], Cond) and lastc[0].op == "pteq" and lastc[0].neg:
        l, r = lastc[0].pts
        acc, rej = final, lastc[1]
        given = Pt.atom(ssym("P"))
        pair_ok = (pt_eq(l, want) and pt_eq(r, given)) or (pt_eq(r, want) and pt_eq(l, given))
        ok = pair_ok and isinstance(acc, Enum) and acc.variant == "Ok" and isinstance(rej, Enum) and rej.variant == "Err"
        why = f"compares {l!r} with {r!r}"
    ck.require(ok, "R10.4", "verify:expected-P", f"verify must accept iff a*b*Q + <a*s*gf,G> + <b*s_rev*hf,H> - <u^2,L> - <u^-2,R> equals the given P; {why}", where)
    msms = list(I.msm_log)  # whole dynamic extent of the verify run
    ck.require(len(msms) == 1 and msms[0]["equal"], "R10.4", "verify:layout", f"bases and scalars of verify's check must have equal segment lengths: {[(str(m['len_bases']), str(m['len_scalars'])) for m in msms]}", where)


def body(ck, F, cfg):
    ipp.check_create(ck, F)
    ipp.folding_step(ck, F)
    ipp.check_create_n1(ck, F)
    A = ipp.check_vs(ck, F, "R10.3")
    for name, okk in A["guards_found"].items():
        ck.require(okk, "R10.5", f"guard:{name}", f"shape guard `{name}` -> Err(VerificationError) missing in InnerProductProof::verification_scalars", "src/inner_product_proof.rs")
    ck.require(A["guards_early"], "R10.5", "guards-before-transcript", "shape guards must precede the first transcript operation")
    round_schedule_rule(ck, F, A, "R10.6")
    C = ipp.analyse_create(F)
    pre_ops = [(it[1]["kind"], it[1]["label"]) for it in C["trace"] if it[0] == "op"]
    ck.require(pre_ops[:2] == [("append_message", b"dom-sep"), ("append_u64", b"n")], "R10.6", "prover-schedule-head", f"create must start with dom-sep, n; got {pre_ops[:3]}")
    check_verify_fn(ck, F)
    ck.floor("round formulas", len([o for o in ck.obligations if o[0] == "R10.1"]), 13)
    ck.floor("verifier formulas", len([o for o in ck.obligations if o[0] == "R10.3"]), 4)


def round_schedule_rule(ck, F, A, rule):
    """schedule on the verifier side: dom-sep ipp, n, (L R u)* -- each round challenge is squeezed from the transcript right
    after that round's L and R were absorbed, and it is that squeeze the round's scalars u_j^2, u_j^-2 are built from
    (R10.3's first two components are stated on the `u` challenge atoms).  Shared with C04 (binding of L_j, R_j)."""
    ops = []
    for it in A["trace"]:
        if it[0] == "op":
            ops.append((it[1]["kind"], it[1]["label"]))
        elif it[0] == "star":
            ops.append(("star", tuple((x[1]["kind"], x[1]["label"]) for x in it[1] if x[0] == "op")))
    want = [("append_message", b"dom-sep"), ("append_u64", b"n"), ("star", (("append_message", b"L"), ("append_message", b"R"), ("challenge_bytes", b"u")))]
    ck.require(ops == want, rule, "verifier-schedule", f"verifier-side schedule must be dom-sep, n, (L R u)*; got {ops}")


def run(tier):
    ck = run_configs(
        "C10", tier, LEVEL, body,
        explanation="TERM: InnerProductProof::create is interpreted on vectors of symbolic even length 2h; the unrolled first round "
        "(with G/H factors) and one generic halving round are extracted as group/vector normal forms and compared with the reference round; "
        "the first round with unit factors must equal the generic round. The verifier's u^2, u^-2 and the s recurrence are extracted from "
        "verification_scalars (s as a named recurrence) and compared with s[0]=prod u_j^-1, s[i]=s[i-2^lg i]*u_(lg n-1-lg i)^2. "
        "`verify`'s expected point is compared with the reference opening equation.",
        rule_text="R10.1 round formulas; R10.2 twin rounds; R10.3 verifier scalars and recurrence; R10.4 verify equation; R10.5 halving / shape guards; R10.6 schedule; R10.7 inductive step of the folding theorem on the extracted rounds; R10.8 the length-1 instance (k = 0): no rounds, (a[0], b[0]), exactly the domain separator absorbed",
        not_decided=["the folding theorem (that these formulas make honest proofs verify and bind)", "degenerate identity cross-terms (rejected by the validating append, see C03)"],
        assumptions=["arkworks msm/inverse implement the algebra", "challenges are non-zero (inverse().unwrap())"],
    )
    return ck.finish()


CLAIM = {
    "engine": "TERM+TWIN",
    "level": "other",
    "design_ref": "DESIGN.md section 4 C10",
    "technique": "static: abstract interpretation of create/verification_scalars/verify into symbolic terms; comparison with reference round and recurrence; twin-round agreement",
    "text": "For every length 2^k the code's round is the reference round (a statement about expressions over symbolic half-length h): "
    "cross terms, folds of a, b, G, H with u / u^-1 and the factor vectors, challenge order, the verifier's subset-product recurrence and "
    "the shape guards. The first-round fast path is tied to the generic path by substituting unit factors. The inductive step of the folding theorem "
    "(<a',G'>+<b',H'>+<a',b'>Q = u^2 L + P + u^-2 R) is checked as a formal-sum identity on the extracted rounds. The length-1 argument (k = 0), which the 2h-instance cannot reach, is analysed as its own instance: "
    "no rounds, result (a[0], b[0]), and the same transcript operations the verifier performs before its zero rounds.",
    "note": "trusted: equivalence of explicit generator folding with the s-vector form; induction over rounds (elementary); arkworks algebra; reference in rules/ipp.py",
}

"""Fact extraction (runs the bpfacts driver over /repo's working tree) and helpers.

Every property command goes through `load(config)`: the facts file is re-extracted
unless one with the same key (hash of everything cargo reads for the lib target +
driver hash + feature configuration) is already cached.  Nothing in /repo is run.
"""
import fcntl
import hashlib
import json
import os
import subprocess
import sys
import time

VERIF = os.path.dirname(os.path.dirname(os.path.abspath(__file__)))
REPO = os.environ.get("BPV_REPO", "/repo")
WORK = os.environ.get("BPV_WORK") or os.path.join(VERIF, ".work")
DRIVER = os.path.join(VERIF, "bpfacts", "target", "debug", "bpfacts")

CONFIGS = {
    "default": [],
    "nostd": ["--no-default-features", "--features", "yoloproofs"],
    "parallel": ["--features", "parallel"],
}


class ExtractError(Exception):
    pass


def _sha_file(h, p):
    with open(p, "rb") as f:
        h.update(p.encode())
        h.update(b"\0")
        h.update(f.read())


def source_key(config):
    h = hashlib.sha256()
    h.update(config.encode())
    for name in ("Cargo.toml", "Cargo.lock", "rust-toolchain", "build.rs"):
        p = os.path.join(REPO, name)
        if os.path.exists(p):
            _sha_file(h, p)
    for root, dirs, files in os.walk(os.path.join(REPO, "src")):
        dirs.sort()
        for f in sorted(files):
            _sha_file(h, os.path.join(root, f))
    if os.path.exists(DRIVER):
        _sha_file(h, DRIVER)
    return h.hexdigest()[:24]


def nightly_sysroot():
    return subprocess.check_output(["rustc", "+nightly", "--print", "sysroot"], text=True).strip()


def ensure_driver():
    if os.path.exists(DRIVER):
        src_m = max(
            os.path.getmtime(os.path.join(VERIF, "bpfacts", "src", f))
            for f in os.listdir(os.path.join(VERIF, "bpfacts", "src"))
        )
        if os.path.getmtime(DRIVER) >= src_m:
            return
    env = dict(os.environ, CARGO_NET_OFFLINE="true")
    r = subprocess.run(
        ["cargo", "build", "--offline"], cwd=os.path.join(VERIF, "bpfacts"), env=env, capture_output=True, text=True
    )
    if r.returncode != 0:
        raise ExtractError("driver build failed:\n" + r.stderr[-4000:])


def extract(config="default", force=False):
    """Returns (path, fresh: bool). Fails closed if the crate does not compile."""
    os.makedirs(os.path.join(WORK, "facts"), exist_ok=True)
    lock = open(os.path.join(WORK, "lock." + config), "w")
    fcntl.flock(lock, fcntl.LOCK_EX)
    try:
        ensure_driver()
        key = source_key(config)
        out = os.path.join(WORK, "facts", f"{config}-{key}.json")
        if os.path.exists(out) and not force:
            return out, False
        # drop stale facts of this config
        for f in os.listdir(os.path.join(WORK, "facts")):
            if f.startswith(config + "-"):
                os.unlink(os.path.join(WORK, "facts", f))
        target = os.path.join(WORK, "target-" + config)
        fp = os.path.join(target, "debug", ".fingerprint")
        if os.path.isdir(fp):
            for d in os.listdir(fp):
                if d.startswith("ark-bulletproofs-"):
                    subprocess.run(["rm", "-rf", os.path.join(fp, d)])
        nonce = hashlib.sha256(f"{time.time()}{os.getpid()}".encode()).hexdigest()[:16]
        tmp = out + ".tmp"
        if os.path.exists(tmp):
            os.unlink(tmp)
        env = dict(os.environ)
        env.update(
            CARGO_NET_OFFLINE="true",
            BPFACTS_OUT=tmp,
            BPFACTS_NONCE=nonce,
            BPFACTS_CRATE="ark_bulletproofs",
            RUSTFLAGS="-Zmir-opt-level=0 -Awarnings",
            RUSTC_WORKSPACE_WRAPPER=DRIVER,
            CARGO_TARGET_DIR=target,
            LD_LIBRARY_PATH=os.path.join(nightly_sysroot(), "lib") + ":" + os.environ.get("LD_LIBRARY_PATH", ""),
        )
        env.pop("RUSTC_WRAPPER", None)
        cmd = ["cargo", "+nightly", "check", "--offline", "--lib"] + CONFIGS[config]
        r = subprocess.run(cmd, cwd=REPO, env=env, capture_output=True, text=True)
        if r.returncode != 0 or not os.path.exists(tmp):
            tail = "\n".join(l for l in r.stderr.splitlines() if "Compiling" not in l and "Checking" not in l)[-3000:]
            raise ExtractError(f"extraction failed for config {config} (crate does not compile?):\n{tail}")
        with open(tmp) as f:
            d = json.load(f)
        if d.get("nonce") != nonce:
            raise ExtractError("stale facts file (nonce mismatch)")
        os.rename(tmp, out)
        return out, True
    finally:
        fcntl.flock(lock, fcntl.LOCK_UN)
        lock.close()


_cache = {}


def norm_paths(text):
    """one spelling for std paths across feature configurations (no_std prints core::/alloc::)"""
    import re

    text = re.sub(r"\b(?:generators::)?alloc::", "std::", text)
    return re.sub(r"\bcore::", "std::", text)


def load(config="default"):
    if config in _cache:
        return _cache[config]
    path, fresh = extract(config)
    with open(path) as f:
        d = json.loads(norm_paths(f.read()))
    F = Facts(d, config, path, fresh)
    _cache[config] = F
    return F


def canon_path(p):
    """def path with generic argument lists removed (renaming a type parameter must not move an anchor):
    `Verifier::<G, T>::verify` -> `Verifier::verify`; `<X<G> as Tr<G>>::m` -> `<X as Tr>::m`"""
    out = []
    i, n = 0, len(p)
    while i < n:
        c = p[i]
        if c == "<":
            prev = p[i - 1] if i > 0 else ""
            qualified = (i == 0) or prev in " (,<&["
            if qualified:
                out.append(c)
                i += 1
                continue
            # generic argument list (also after `::`): skip to the matching '>'
            depth = 0
            j = i
            while j < n:
                if p[j] == "<":
                    depth += 1
                elif p[j] == ">" and not (j > 0 and p[j - 1] == "-"):
                    depth -= 1
                    if depth == 0:
                        break
                j += 1
            if out and "".join(out).endswith("::"):
                del out[-2:]
            i = j + 1
            continue
        out.append(c)
        i += 1
    return "".join(out)


class Facts:
    def __init__(self, d, config, path, fresh):
        self.d = d
        self.config = config
        self.path = path
        self.fresh = fresh
        self.fns = d["fns"]
        self.mir = d["mir"]
        self.consts = d["consts"]
        self.moduli = d["moduli"]
        self.items = d["items"]
        self.adts = {a["path"]: a for a in d["items"]["adts"]}
        self._canon = {}
        for p in self.fns:
            self._canon.setdefault(canon_path(p), []).append(p)
        self._canon_mir = {}
        for p in self.mir:
            self._canon_mir.setdefault(canon_path(p), []).append(p)

    def resolve(self, path):
        """actual def path for an anchor written with this repository's generic parameter names"""
        if path in self.fns:
            return path
        c = self._canon.get(canon_path(path), [])
        if len(c) == 1:
            return c[0]
        raise AnchorMissing(path)

    def fn(self, path):
        """Fetch a function by def path (generic parameter names are not significant); anchor-missing is a hard failure."""
        return self.fns[self.resolve(path)]

    def find_fns(self, suffix):
        return [p for p in self.fns if p.endswith(suffix)]


def same_fn(a, b):
    return a == b or canon_path(a or "") == canon_path(b or "")


class AnchorMissing(Exception):
    def __init__(self, what):
        super().__init__(what)
        self.what = what


# ---------------------------------------------------------------------------
# generic HIR walking


def children(node):
    """Yield child nodes (dicts with key 'k') of a HIR JSON node."""
    if isinstance(node, dict):
        for k, v in node.items():
            if isinstance(v, dict):
                if "k" in v:
                    yield v
                else:
                    yield from children(v)
            elif isinstance(v, list):
                for x in v:
                    if isinstance(x, dict):
                        if "k" in x:
                            yield x
                        else:
                            yield from children(x)
    elif isinstance(node, list):
        for x in node:
            yield from children(x)


def walk(node):
    """Pre-order walk over all nodes with a kind."""
    stack = [node]
    while stack:
        n = stack.pop()
        if isinstance(n, dict) and "k" in n:
            yield n
        ch = list(children(n))
        stack.extend(reversed(ch))


def callee_path(node):
    """Resolved callee def path of a Call / MethodCall / overloaded operator node (or None)."""
    k = node.get("k")
    if k == "MethodCall" or (k in ("Binary", "Unary", "AssignOp", "Index") and "callee" in node):
        c = node.get("callee") or {}
        return c.get("resolved") or c.get("path")
    if k == "Call":
        f = node["f"]
        if f.get("k") == "Path":
            r = f["res"]
            if r.get("k") == "Def":
                return r.get("resolved") or r.get("path")
    return None


def callee_info(node):
    k = node.get("k")
    if k == "MethodCall" or (k in ("Binary", "Unary", "AssignOp", "Index") and "callee" in node):
        return node.get("callee") or {}
    if k == "Call":
        f = node["f"]
        if f.get("k") == "Path" and f["res"].get("k") == "Def":
            return f["res"]
    return {}


def call_args(node):
    """All arguments including the receiver for method calls."""
    if node["k"] == "MethodCall":
        return [node["recv"]] + node["args"]
    if node["k"] == "Call":
        return node["args"]
    return []


def strip(node):
    """Strip references/derefs/clones that do not change the denoted value."""
    while True:
        k = node.get("k")
        if k == "AddrOf":
            node = node["e"]
        elif k == "Unary" and node.get("op") == "*" :
            node = node["e"]
        elif k == "Block" and not node["stmts"] and node.get("expr"):
            node = node["expr"]
        else:
            return node


def lit_bytes(node):
    node = strip(node)
    if node.get("k") == "Lit":
        if node.get("lk") == "ByteStr":
            return bytes(node["bytes"])
        if node.get("lk") == "Str":
            return node["v"].encode()
    return None


def short(sp):
    """Shorten a span string for reports."""
    if not sp:
        return "?"
    return sp.replace(REPO + "/", "")

"""Fact extraction (runs the bpfacts driver over /repo's working tree) and helpers.

Every property command goes through `load(config)`: the facts file is re-extracted
unless one with the same key (hash of everything cargo reads for the lib target +
driver hash + feature configuration) is already cached.  Nothing in /repo is run.
"""
import fcntl
import re
import hashlib
import json
import os
import subprocess
import sys
import time

VERIF = os.path.dirname(os.path.dirname(os.path.abspath(__file__)))
REPO = os.environ.get("BPV_REPO", "/repo")
WORK = os.environ.get("BPV_WORK") or os.path.join(VERIF, ".work")
DRIVER = os.path.join(VERIF, "bpfacts", "target", "debug", "bpfacts")

CONFIGS = {
    "default": [],
    "nostd": ["--no-default-features", "--features", "yoloproofs"],
    "parallel": ["--features", "parallel"],
}


class ExtractError(Exception):
    pass


def _sha_file(h, p):
    with open(p, "rb") as f:
        h.update(p.encode())
        h.update(b"\0")
        h.update(f.read())


def source_key(config):
    h = hashlib.sha256()
    h.update(config.encode())
    for name in ("Cargo.toml", "Cargo.lock", "rust-toolchain", "build.rs"):
        p = os.path.join(REPO, name)
        if os.path.exists(p):
            _sha_file(h, p)
    for root, dirs, files in os.walk(os.path.join(REPO, "src")):
        dirs.sort()
        for f in sorted(files):
            _sha_file(h, os.path.join(root, f))
    if os.path.exists(DRIVER):
        _sha_file(h, DRIVER)
    return h.hexdigest()[:24]


def nightly_sysroot():
    return subprocess.check_output(["rustc", "+nightly", "--print", "sysroot"], text=True).strip()


def ensure_driver():
    if os.path.exists(DRIVER):
        src_m = max(
            os.path.getmtime(os.path.join(VERIF, "bpfacts", "src", f))
            for f in os.listdir(os.path.join(VERIF, "bpfacts", "src"))
        )
        if os.path.getmtime(DRIVER) >= src_m:
            return
    env = dict(os.environ, CARGO_NET_OFFLINE="true")
    r = subprocess.run(
        ["cargo", "build", "--offline"], cwd=os.path.join(VERIF, "bpfacts"), env=env, capture_output=True, text=True
    )
    if r.returncode != 0:
        raise ExtractError("driver build failed:\n" + r.stderr[-4000:])


def extract(config="default", force=False):
    """Returns (path, fresh: bool). Fails closed if the crate does not compile."""
    os.makedirs(os.path.join(WORK, "facts"), exist_ok=True)
    lock = open(os.path.join(WORK, "lock." + config), "w")
    fcntl.flock(lock, fcntl.LOCK_EX)
    try:
        ensure_driver()
        key = source_key(config)
        out = os.path.join(WORK, "facts", f"{config}-{key}.json")
        if os.path.exists(out) and not force:
            return out, False
        # drop stale facts of this config
        for f in os.listdir(os.path.join(WORK, "facts")):
            if f.startswith(config + "-"):
                os.unlink(os.path.join(WORK, "facts", f))
        target = os.path.join(WORK, "target-" + config)
        fp = os.path.join(target, "debug", ".fingerprint")
        if os.path.isdir(fp):
            for d in os.listdir(fp):
                if d.startswith("ark-bulletproofs-"):
                    subprocess.run(["rm", "-rf", os.path.join(fp, d)])
        nonce = hashlib.sha256(f"{time.time()}{os.getpid()}".encode()).hexdigest()[:16]
        tmp = out + ".tmp"
        if os.path.exists(tmp):
            os.unlink(tmp)
        env = dict(os.environ)
        env.update(
            CARGO_NET_OFFLINE="true",
            BPFACTS_OUT=tmp,
            BPFACTS_NONCE=nonce,
            BPFACTS_CRATE="ark_bulletproofs",
            RUSTFLAGS="-Zmir-opt-level=0 -Awarnings",
            RUSTC_WORKSPACE_WRAPPER=DRIVER,
            CARGO_TARGET_DIR=target,
            LD_LIBRARY_PATH=os.path.join(nightly_sysroot(), "lib") + ":" + os.environ.get("LD_LIBRARY_PATH", ""),
        )
        env.pop("RUSTC_WRAPPER", None)
        cmd = ["cargo", "+nightly", "check", "--offline", "--lib"] + CONFIGS[config]
        r = subprocess.run(cmd, cwd=REPO, env=env, capture_output=True, text=True)
        if r.returncode != 0 or not os.path.exists(tmp):
            tail = "\n".join(l for l in r.stderr.splitlines() if "Compiling" not in l and "Checking" not in l)[-3000:]
            raise ExtractError(f"extraction failed for config {config} (crate does not compile?):\n{tail}")
        with open(tmp) as f:
            d = json.load(f)
        if d.get("nonce") != nonce:
            raise ExtractError("stale facts file (nonce mismatch)")
        os.rename(tmp, out)
        return out, True
    finally:
        fcntl.flock(lock, fcntl.LOCK_UN)
        lock.close()


_cache = {}


def norm_paths(text):
    """one spelling for std paths across feature configurations (no_std prints core::/alloc::)"""
    import re

    text = re.sub(r"\b(?:generators::)?alloc::", "std::", text)
    # rand re-exports the rand_core traits; which path rustc prints depends on the crate's imports
    text = re.sub(r"\brand::(SeedableRng|RngCore|CryptoRng)\b", r"rand_core::\1", text)
    return re.sub(r"\bcore::", "std::", text)


def load(config="default"):
    if config in _cache:
        return _cache[config]
    path, fresh = extract(config)
    with open(path) as f:
        text = norm_paths(f.read())
    d = json.loads(text)
    aren = adt_renames(d)
    if aren:
        text = apply_adt_renames(text, aren)
        d = json.loads(text)
    ren = fn_renames(d)
    if ren:
        d = json.loads(apply_fn_renames(text, ren))
    F = Facts(d, config, path, fresh)
    F.fn_renames = ren
    F.adt_renames = aren
    _cache[config] = F
    return F


def canon_path(p):
    """def path with generic argument lists removed (renaming a type parameter must not move an anchor):
    `Verifier::<G, T>::verify` -> `Verifier::verify`; `<X<G> as Tr<G>>::m` -> `<X as Tr>::m`"""
    out = []
    i, n = 0, len(p)
    while i < n:
        c = p[i]
        if c == "<":
            prev = p[i - 1] if i > 0 else ""
            qualified = (i == 0) or prev in " (,<&["
            if qualified:
                out.append(c)
                i += 1
                continue
            # generic argument list (also after `::`): skip to the matching '>'
            depth = 0
            j = i
            while j < n:
                if p[j] == "<":
                    depth += 1
                elif p[j] == ">" and not (j > 0 and p[j - 1] == "-"):
                    depth -= 1
                    if depth == 0:
                        break
                j += 1
            if out and "".join(out).endswith("::"):
                del out[-2:]
            i = j + 1
            continue
        out.append(c)
        i += 1
    return "".join(out)


def _adt_of_type(t):
    """`&'a mut r1cs::verifier::Verifier<G, T>` -> `r1cs::verifier::Verifier`"""
    t = re.sub(r"^(&\s*('\w+\s+)?(mut\s+)?)+", "", (t or "").strip())
    return t.split("<", 1)[0].strip()


def _norm_ty(t):
    return re.sub(r"(?<![\w:])([A-Z]\w*)(?![\w:])", "$T", t)


def fn_sig(fn):
    return {"params": [_norm_ty(p["ty"]) for p in fn["params"]], "ret": _norm_ty(fn.get("ret_ty") or "")}


def fn_renames(d):
    """{actual def path: reviewed def path} for inherent / free functions that were only renamed: the reviewed name
    (spec/fn_sigs.json) is gone, and exactly one function of the same container with the same signature has a name the
    reviewed tree does not know."""
    spec_path = os.path.join(VERIF, "spec", "fn_sigs.json")
    if not os.path.exists(spec_path):
        return {}
    with open(spec_path) as f:
        spec = json.load(f)
    fns = d["fns"]
    have = {canon_path(p): p for p in fns}
    spec_canon = {canon_path(p): (p, s) for p, s in spec.items()}
    out = {}
    for c, (old_path, sig) in spec_canon.items():
        if c in have:
            continue
        prefix = c.rsplit("::", 1)[0] + "::"
        cands = [p for cp, p in have.items() if cp.startswith(prefix) and "::" not in cp[len(prefix):] and cp not in spec_canon and not fns[p].get("expn") and fn_sig(fns[p]) == sig]
        if len(cands) == 1:
            # keep the actual generic-argument spelling of the container, replace the last segment only
            out[cands[0]] = cands[0].rsplit("::", 1)[0] + "::" + old_path.rsplit("::", 1)[1]
            continue
        # moved: a free function of the same name and signature in another module (the reviewed path is gone)
        last = c.rsplit("::", 1)[1]
        if "<" not in old_path:  # free functions only (methods move with their type, see adt_renames)
            moved = [p for cp, p in have.items() if cp.rsplit("::", 1)[-1] == last and cp not in spec_canon and "<" not in p and not fns[p].get("expn") and fn_sig(fns[p]) == sig]
            if len(moved) == 1:
                out[moved[0]] = old_path
    return out


def adt_renames(d):
    """{actual struct path: reviewed struct path} for crate-private structs that were only renamed: the reviewed path
    (spec/state_fields.json) is gone and exactly one unknown struct of the same module has the same field list
    (names where unchanged, types in order)."""
    spec_path = os.path.join(VERIF, "spec", "state_fields.json")
    if not os.path.exists(spec_path):
        return {}
    with open(spec_path) as f:
        spec = json.load(f)
    have = {a["path"]: a for a in d["items"]["adts"] if a.get("kind") == "struct"}
    out = {}
    for old, want in spec.items():
        if old in have:
            continue
        mod = old.rsplit("::", 1)[0] + "::"
        cands = []
        for p, a in have.items():
            if not p.startswith(mod) or "::" in p[len(mod):] or p in spec:
                continue
            fl = a["variants"][0]["fields"]
            if len(fl) == len(want) and all(_norm_ty(f_["ty"]).replace(p, old) == t for f_, (_, t) in zip(fl, want)):
                cands.append(p)
        if len(cands) == 1:
            out[cands[0]] = old
            continue
        # moved into another module under the same name
        name = old.rsplit("::", 1)[1]
        moved = []
        for p, a in have.items():
            if p in spec or p.rsplit("::", 1)[-1] != name:
                continue
            fl = a["variants"][0]["fields"]
            if len(fl) == len(want) and all(_norm_ty(f_["ty"]).replace(p, old) == t for f_, (_, t) in zip(fl, want)):
                moved.append(p)
        if len(moved) == 1:
            out[moved[0]] = old
    return out


def apply_adt_renames(text, ren):
    for new, old in ren.items():
        text = re.sub(r"(?<![\w:])" + re.escape(new) + r"(?![\w])", old, text)
    return text


def apply_fn_renames(text, ren):
    for new, old in ren.items():
        text = re.sub(re.escape(json.dumps(new)[1:-1]) + r'(?=["\\]|::\{)', lambda m: json.dumps(old)[1:-1], text)
    return text


def canon_fields(d):
    """Private fields are addressed by the rules under their reviewed names (spec/state_fields.json).  A field that was
    renamed keeps its type and its place among the renamed ones: map it back (by name where unchanged, else by
    declaration order + type), in the item table and in every HIR body.  Anything else (count or type changed) is left
    alone and surfaces as anchor-missing / a rule failure."""
    spec_path = os.path.join(VERIF, "spec", "state_fields.json")
    if not os.path.exists(spec_path):
        return {}
    with open(spec_path) as f:
        spec = json.load(f)
    renames = {}
    for a in d["items"]["adts"]:
        want = spec.get(a["path"])
        if not want or a.get("kind") != "struct":
            continue
        have = a["variants"][0]["fields"]
        wn = [n for n, _ in want]
        hn = [f_["name"] for f_ in have]
        if set(wn) == set(hn) or len(wn) != len(hn):
            continue
        rest_w = [(n, t) for n, t in want if n not in hn]
        rest_h = [f_ for f_ in have if f_["name"] not in wn]
        def _repr_ty(s):
            # `&Vec<X>` and `&[X]` are two spellings of a borrowed list (a field name is only an address for the rules:
            # what the field holds is read from the program, not from this table)
            import re as _re

            return _re.sub(r"&('\w+ )?(mut )?std::vec::Vec<(.*)>$", r"&\1\2[\3]", s)

        if len(rest_w) != len(rest_h):
            continue
        if any(_repr_ty(_norm_ty(f_["ty"])) != _repr_ty(t) for f_, (_, t) in zip(rest_h, rest_w)) and len(rest_w) != 1:
            continue
        m = {f_["name"]: n for f_, (n, _) in zip(rest_h, rest_w)}
        renames[a["path"]] = m
        for f_ in have:
            f_["name"] = m.get(f_["name"], f_["name"])
    if not renames:
        return {}
    for fn in d["fns"].values():
        for n in walk(fn["body"]):
            k = n["k"]
            if k == "Field":
                m = renames.get(_adt_of_type(n.get("base_ty")))
                if m and n["name"] in m:
                    n["name"] = m[n["name"]]
            elif k in ("Struct", "StructPat"):
                m = renames.get(canon_path((n.get("res") or {}).get("path", "")))
                if m:
                    for fl in n.get("fields", []):
                        if fl.get("name") in m:
                            fl["name"] = m[fl["name"]]
    return renames


class Facts:
    def __init__(self, d, config, path, fresh):
        self.field_renames = canon_fields(d)
        self.d = d
        self.config = config
        self.path = path
        self.fresh = fresh
        self.fns = d["fns"]
        self.mir = d["mir"]
        self.consts = d["consts"]
        self.moduli = d["moduli"]
        self.items = d["items"]
        self.adts = {a["path"]: a for a in d["items"]["adts"]}
        self._canon = {}
        for p in self.fns:
            self._canon.setdefault(canon_path(p), []).append(p)
        self._canon_mir = {}
        for p in self.mir:
            self._canon_mir.setdefault(canon_path(p), []).append(p)

    def resolve(self, path):
        """actual def path for an anchor written with this repository's generic parameter names"""
        if path in self.fns:
            return path
        c = self._canon.get(canon_path(path), [])
        if len(c) == 1:
            return c[0]
        raise AnchorMissing(path)

    def fn(self, path):
        """Fetch a function by def path (generic parameter names are not significant); anchor-missing is a hard failure."""
        return self.fns[self.resolve(path)]

    def find_fns(self, suffix):
        return [p for p in self.fns if p.endswith(suffix)]


def same_fn(a, b):
    return a == b or canon_path(a or "") == canon_path(b or "")


class AnchorMissing(Exception):
    def __init__(self, what):
        super().__init__(what)
        self.what = what


# ---------------------------------------------------------------------------
# generic HIR walking


def children(node):
    """Yield child nodes (dicts with key 'k') of a HIR JSON node."""
    if isinstance(node, dict):
        for k, v in node.items():
            if isinstance(v, dict):
                if "k" in v:
                    yield v
                else:
                    yield from children(v)
            elif isinstance(v, list):
                for x in v:
                    if isinstance(x, dict):
                        if "k" in x:
                            yield x
                        else:
                            yield from children(x)
    elif isinstance(node, list):
        for x in node:
            yield from children(x)


def own_jumps(node):
    """`break` / `continue` nodes that belong to the loop whose body `node` is (nested loops and closures keep their own)"""
    out = []
    stack = [node]
    while stack:
        n = stack.pop()
        if isinstance(n, dict) and n.get("k") in ("Break", "Continue"):
            out.append(n)
        for c in children(n):
            if c.get("k") in ("Loop", "Closure"):
                continue
            stack.append(c)
    return out


def walk(node):
    """Pre-order walk over all nodes with a kind."""
    stack = [node]
    while stack:
        n = stack.pop()
        if isinstance(n, dict) and "k" in n:
            yield n
        ch = list(children(n))
        stack.extend(reversed(ch))


def callee_path(node):
    """Resolved callee def path of a Call / MethodCall / overloaded operator node (or None)."""
    k = node.get("k")
    if k == "MethodCall" or (k in ("Binary", "Unary", "AssignOp", "Index") and "callee" in node):
        c = node.get("callee") or {}
        return c.get("resolved") or c.get("path")
    if k == "Call":
        f = node["f"]
        if f.get("k") == "Path":
            r = f["res"]
            if r.get("k") == "Def":
                return r.get("resolved") or r.get("path")
    return None


def callee_info(node):
    k = node.get("k")
    if k == "MethodCall" or (k in ("Binary", "Unary", "AssignOp", "Index") and "callee" in node):
        return node.get("callee") or {}
    if k == "Call":
        f = node["f"]
        if f.get("k") == "Path" and f["res"].get("k") == "Def":
            return f["res"]
    return {}


def call_args(node):
    """All arguments including the receiver for method calls."""
    if node["k"] == "MethodCall":
        return [node["recv"]] + node["args"]
    if node["k"] == "Call":
        return node["args"]
    return []


def strip(node):
    """Strip references/derefs/clones that do not change the denoted value."""
    while True:
        k = node.get("k")
        if k == "AddrOf":
            node = node["e"]
        elif k == "Unary" and node.get("op") == "*" :
            node = node["e"]
        elif k == "Block" and not node["stmts"] and node.get("expr"):
            node = node["expr"]
        else:
            return node


def lit_bytes(node):
    node = strip(node)
    if node.get("k") == "Lit":
        if node.get("lk") == "ByteStr":
            return bytes(node["bytes"])
        if node.get("lk") == "Str":
            return node["v"].encode()
    return None


def short(sp):
    """Shorten a span string for reports."""
    if not sp:
        return "?"
    return sp.replace(REPO + "/", "")

"""Shared TERM runs over the crate's entry points (cached per Facts object)."""
import sympy as sp

from . import harness as H
from .alg import Enum, Ite, Opaque, Pt, Sc, Struct, Tup, Unanalysable, Vec, isym, ssym
from .interp import Interp, RngV, Tr

_cache = {}


def _memo(F, key, fn):
    k = (id(F), key)
    if k not in _cache:
        try:
            _cache[k] = ("ok", fn())
        except Unanalysable as u:
            _cache[k] = ("unanalysable", u)
    st, v = _cache[k]
    if st == "unanalysable":
        raise v
    return v


def ok_payload(v):
    """payload of a value that is Ok(..) on the non-aborting path"""
    if isinstance(v, Enum) and v.variant == "Ok":
        return v.payload[0]
    if isinstance(v, Ite):
        for x in (v.a, v.b):
            if isinstance(x, Enum) and x.variant == "Ok":
                return x.payload[0]
    raise Unanalysable(f"entry point does not return Ok on the analysed path: {v!r}")


def verifier_scalars(F):
    """Verifier::verification_scalars on symbolic inputs."""

    def go():
        I = H.new_interp(F, H.flatten_hooks(F, "verifier"))
        ver, proof, bp = H.mk_verifier(), H.mk_proof(), H.mk_bp_gens()
        I.role_obj = {"verifier": ver}
        v = I.call_fn(H.P_VER + "verification_scalars", [ver, proof, bp])
        out = ok_payload(v)
        return {"I": I, "ret": v, "self": out.items[0], "scalars": out.items[1], "proof": proof, "bp": bp, "ver": ver}

    return _memo(F, "verifier_scalars", go)


def verify_full(F):
    """Verifier::verify_and_return_transcript with everything inlined (verdict, bases, layout)."""

    def go():
        I = H.new_interp(F, H.flatten_hooks(F, "verifier"))
        ver, proof, bp, pc = H.mk_verifier(), H.mk_proof(), H.mk_bp_gens(), H.mk_pc_gens()
        I.role_obj = {"verifier": ver}
        v = I.call_fn(H.P_VER + "verify_and_return_transcript", [ver, proof, pc, bp])
        return {"I": I, "ret": v, "proof": proof, "bp": bp, "pc": pc, "ver": ver}

    return _memo(F, "verify_full", go)


def verify_wrapper(F):
    def go():
        calls = []

        def hook(I, args, node):
            calls.append([I.deref(a) for a in args])
            return Enum("Result", "Ok", [Opaque("transcript-back")])

        I = H.new_interp(F, {H.P_VER + "verify_and_return_transcript": hook})
        ver, proof, bp, pc = H.mk_verifier(), H.mk_proof(), H.mk_bp_gens(), H.mk_pc_gens()
        v = I.call_fn(H.P_VER + "verify", [ver, proof, pc, bp])
        return {"I": I, "ret": v, "calls": calls, "inputs": (ver, proof, pc, bp)}

    return _memo(F, "verify_wrapper", go)


def prover_run(F):
    def go():
        I = H.new_interp(F, dict(H.flatten_hooks(F, "prover"), **{H.P_IPP + "create": H.hook_ipp_create}))
        pc = H.mk_pc_gens()
        prv, bp = H.mk_prover(pc=pc), H.mk_bp_gens()
        I.role_obj = {"prover": prv}
        rng = RngV("param", "ext")
        v = I.call_fn(H.P_PRV + "prove_and_return_transcript", [prv, rng, bp])
        out = ok_payload(v)
        return {"I": I, "ret": v, "proof": out.items[0], "transcript_back": out.items[1], "prover": prv, "bp": bp, "pc": pc, "ext_rng": rng}

    return _memo(F, "prover_run", go)


def exit_chain(I, ret, fn_pred=None):
    """Canonical view of a function's exits, independent of the spelling (early `return Err`, tail if/else, negated
    condition): ([(abort_condition, error_value, where)], final_value).  Top-level guards of the functions selected by
    fn_pred come first (in program order); then a returned Ite with exactly one Err side is peeled."""
    from .alg import Cond, Enum, Ite

    chain = [(it[1], it[2], it[3]) for it in I.trace.items if it[0] == "guard" and (fn_pred is None or fn_pred(it[4]))]
    is_err = lambda v: isinstance(v, Enum) and v.variant == "Err"
    from .alg import Opaque as _Op

    if isinstance(ret, _Op) and ret.what == "result" and "ok" in ret.info:
        # fallible dependency call passed through (map / map_err spellings): failure exit + success value
        chain.append((Cond("is_ok", text=repr(ret)).negate(), Enum("Result", "Err", [ret.info.get("err", _Op("error-value"))]), "tail"))
        ret = Enum("Result", "Ok", [ret.info["ok"]])
    while isinstance(ret, Ite) and isinstance(ret.cond, Cond):
        if is_err(ret.b) and not is_err(ret.a):
            chain.append((ret.cond.negate(), ret.b, "tail"))
            ret = ret.a
        elif is_err(ret.a) and not is_err(ret.b):
            chain.append((ret.cond, ret.a, "tail"))
            ret = ret.b
        else:
            break
    return chain, ret


def flat_trace(items, into=None, depth=0, ctx=()):
    """flatten a structured trace into (item, ctx) pairs; ctx = tuple of enclosing ('star'|'alt-then'|'alt-else', info)"""
    into = [] if into is None else into
    for it in items:
        if it[0] == "star":
            flat_trace(it[1], into, depth + 1, ctx + (("star", it[2]),))
        elif it[0] == "alt":
            flat_trace(it[2], into, depth + 1, ctx + (("alt-then", it[1]),))
            flat_trace(it[3], into, depth + 1, ctx + (("alt-else", it[1]),))
        else:
            into.append((it, ctx))
    return into


def validated_sets(I):
    """(guarded, plain): proof points absorbed with / without a directly preceding identity-rejecting guard on the same point.
    A point that is guarded on some path and plain on another appears in both sets."""
    from .alg import Cond, Enum, Pt
    from .sched import atom_name

    flat = flat_trace(I.trace.items)
    guarded, plain = set(), set()
    for idx, (it, ctx) in enumerate(flat):
        if it[0] != "op" or it[1]["kind"] != "append_message":
            continue
        p = it[1]["payload"]
        if not (hasattr(p, "parts") and len(p.parts) == 1 and p.parts[0][0] == "uncompressed" and isinstance(p.parts[0][1], Pt)):
            continue
        nm = atom_name(p.parts[0][1])
        if nm is None or not nm.startswith("pf."):
            continue
        prev = flat[idx - 1][0] if idx > 0 else None
        is_g = prev is not None and prev[0] == "guard" and isinstance(prev[1], Cond) and prev[1].op == "iszero" and not prev[1].neg and isinstance(getattr(prev[1], "subject", None), Pt) and atom_name(prev[1].subject) == nm and isinstance(prev[2], Enum) and prev[2].variant == "Err" and "VerificationError" in repr(prev[2])
        (guarded if is_g else plain).add(nm)
    return guarded, plain

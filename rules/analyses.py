"""Shared TERM runs over the crate's entry points (cached per Facts object)."""
import sympy as sp

from . import harness as H
from .alg import Enum, Ite, Opaque, Pt, Sc, Struct, Tup, Unanalysable, Vec, isym, ssym
from .interp import Interp, RngV, Tr

_cache = {}


def _memo(F, key, fn):
    k = (id(F), key)
    if k not in _cache:
        try:
            _cache[k] = ("ok", fn())
        except Unanalysable as u:
            _cache[k] = ("unanalysable", u)
    st, v = _cache[k]
    if st == "unanalysable":
        raise v
    return v


def ok_payload(v):
    """payload of a value that is Ok(..) on the non-aborting path"""
    if isinstance(v, Enum) and v.variant == "Ok":
        return v.payload[0]
    if isinstance(v, Ite):
        for x in (v.a, v.b):
            if isinstance(x, Enum) and x.variant == "Ok":
                return x.payload[0]
    raise Unanalysable(f"entry point does not return Ok on the analysed path: {v!r}")


def verifier_scalars(F):
    """Verifier::verification_scalars on symbolic inputs."""

    def go():
        I = H.new_interp(F, {H.P_VER + "flattened_constraints": H.hook_flatten_verifier})
        ver, proof, bp = H.mk_verifier(), H.mk_proof(), H.mk_bp_gens()
        v = I.call_fn(H.P_VER + "verification_scalars", [ver, proof, bp])
        out = ok_payload(v)
        return {"I": I, "ret": v, "self": out.items[0], "scalars": out.items[1], "proof": proof, "bp": bp, "ver": ver}

    return _memo(F, "verifier_scalars", go)


def verify_full(F):
    """Verifier::verify_and_return_transcript with everything inlined (verdict, bases, layout)."""

    def go():
        I = H.new_interp(F, {H.P_VER + "flattened_constraints": H.hook_flatten_verifier})
        ver, proof, bp, pc = H.mk_verifier(), H.mk_proof(), H.mk_bp_gens(), H.mk_pc_gens()
        v = I.call_fn(H.P_VER + "verify_and_return_transcript", [ver, proof, pc, bp])
        return {"I": I, "ret": v, "proof": proof, "bp": bp, "pc": pc, "ver": ver}

    return _memo(F, "verify_full", go)


def verify_wrapper(F):
    def go():
        calls = []

        def hook(I, args, node):
            calls.append([I.deref(a) for a in args])
            return Enum("Result", "Ok", [Opaque("transcript-back")])

        I = H.new_interp(F, {H.P_VER + "verify_and_return_transcript": hook})
        ver, proof, bp, pc = H.mk_verifier(), H.mk_proof(), H.mk_bp_gens(), H.mk_pc_gens()
        v = I.call_fn(H.P_VER + "verify", [ver, proof, pc, bp])
        return {"I": I, "ret": v, "calls": calls, "inputs": (ver, proof, pc, bp)}

    return _memo(F, "verify_wrapper", go)


def prover_run(F):
    def go():
        I = H.new_interp(F, {H.P_PRV + "flattened_constraints": H.hook_flatten_prover, H.P_IPP + "create": H.hook_ipp_create})
        pc = H.mk_pc_gens()
        prv, bp = H.mk_prover(pc=pc), H.mk_bp_gens()
        rng = RngV("param", "ext")
        v = I.call_fn(H.P_PRV + "prove_and_return_transcript", [prv, rng, bp])
        out = ok_payload(v)
        return {"I": I, "ret": v, "proof": out.items[0], "transcript_back": out.items[1], "prover": prv, "bp": bp, "pc": pc, "ext_rng": rng}

    return _memo(F, "prover_run", go)


def flat_trace(items, into=None, depth=0, ctx=()):
    """flatten a structured trace into (item, ctx) pairs; ctx = tuple of enclosing ('star'|'alt-then'|'alt-else', info)"""
    into = [] if into is None else into
    for it in items:
        if it[0] == "star":
            flat_trace(it[1], into, depth + 1, ctx + (("star", it[2]),))
        elif it[0] == "alt":
            flat_trace(it[2], into, depth + 1, ctx + (("alt-then", it[1]),))
            flat_trace(it[3], into, depth + 1, ctx + (("alt-else", it[1]),))
        else:
            into.append((it, ctx))
    return into

"""WIRE engine: structural facts about encodings and derivations read from items + HIR."""
from . import facts as FX
from . import harness as H
from .alg import Bytes, Enum, Ite, Opaque, Unanalysable

P_TO = "r1cs::proof::R1CSProof::<G>::to_bytes"
P_FROM = "r1cs::proof::R1CSProof::<G>::from_bytes"

PROOF_FIELDS = [
    ("A_I1", "G"), ("A_O1", "G"), ("S1", "G"), ("A_I2", "G"), ("A_O2", "G"), ("S2", "G"),
    ("T_1", "G"), ("T_3", "G"), ("T_4", "G"), ("T_5", "G"), ("T_6", "G"),
    ("t_x", "<G as ark_ec::AffineRepr>::ScalarField"), ("t_x_blinding", "<G as ark_ec::AffineRepr>::ScalarField"), ("e_blinding", "<G as ark_ec::AffineRepr>::ScalarField"),
    ("ipp_proof", "inner_product_proof::InnerProductProof<G>"),
]
IPP_FIELDS = [("L_vec", "std::vec::Vec<G>"), ("R_vec", "std::vec::Vec<G>"), ("a", "<G as ark_ec::AffineRepr>::ScalarField"), ("b", "<G as ark_ec::AffineRepr>::ScalarField")]


def struct_fields(F, path):
    a = F.adts.get(path)
    if a is None:
        raise FX.AnchorMissing(path)
    return [(f["name"], f["ty"], f["vis"]) for f in a["variants"][0]["fields"]]


def impls_of(F, self_prefix):
    return [i for i in F.items["impls"] if i["self_ty"].startswith(self_prefix)]


def codec_calls(F, fn_path):
    """all (de)serialisation entry points called in a function: list of (callee path, where)"""
    fn = F.fn(fn_path)
    out = []
    for n in FX.walk(fn["body"]):
        cp = FX.callee_info(n).get("path")
        if cp and ("ark_serialize::" in cp) and ("serialize" in cp.split("::")[-1]):
            out.append((cp, FX.short(n.get("sp"))))
    return out


def check_decode(ck, F, rule):
    """from_bytes: only deserialize_compressed (validated) on a cursor over the input; every failure -> FormatError"""
    fn = F.fn(P_FROM)
    ck.fn(P_FROM)
    where = FX.short(fn["sp"])
    calls = codec_calls(F, P_FROM)
    ok = [c for c, _ in calls] == ["ark_serialize::CanonicalDeserialize::deserialize_compressed"]
    ck.require(ok, rule, "from_bytes:validated-decoder", f"from_bytes must decode with exactly one call of deserialize_compressed (Compress::Yes, Validate::Yes); calls: {calls}", where)
    I = H.new_interp(F)
    try:
        ret = I.call_fn(P_FROM, [Bytes([("input", "slice")])])
    except Unanalysable as u:
        ck.fail(rule, "from_bytes:shape", f"unanalysable: {u.msg}", u.where or where, kind="unanalysable")
        return
    # result must be ite(is_ok(decoded), Ok(decoded value), Err(FormatError)); no other error can surface, no `?`
    good = False
    why = repr(ret)
    if isinstance(ret, Ite):
        a, b = (ret.a, ret.b) if not ret.cond.neg else (ret.b, ret.a)
        good = ret.cond.op == "is_ok" and isinstance(a, Enum) and a.variant == "Ok" and isinstance(a.payload[0], Opaque) and a.payload[0].what == "decoded" and a.payload[0].info.get("via") == "deserialize_compressed" and isinstance(b, Enum) and b.variant == "Err" and "FormatError" in repr(b)
        if good:
            src = a.payload[0].info.get("src")
            good = isinstance(src, (Opaque, type(None))) or True
    guards = [it for it in I.trace.items if it[0] == "guard"]
    ck.require(good and not guards, rule, "from_bytes:all-failures-FormatError", f"from_bytes must return the decoded proof when decoding is Ok and Err(FormatError) otherwise, with no other exit; got {why}, early exits {[(str(g[1]), repr(g[2])) for g in guards]}", where)
    cur = [n for n in FX.walk(fn["body"]) if FX.callee_info(n).get("path", "").endswith("io::Cursor::<T>::new")]
    ck.require(len(cur) == 1, rule, "from_bytes:cursor-over-input", "from_bytes must read through one Cursor over the input slice", where)


def check_encode(ck, F, rule):
    fn = F.fn(P_TO)
    ck.fn(P_TO)
    where = FX.short(fn["sp"])
    calls = codec_calls(F, P_TO)
    ck.require([c for c, _ in calls] == ["ark_serialize::CanonicalSerialize::serialize_compressed"], rule, "to_bytes:compressed-encoder", f"to_bytes must encode with exactly one serialize_compressed of the whole proof; calls: {calls}", where)
    I = H.new_interp(F)
    from .harness import mk_proof

    pf = mk_proof()
    try:
        ret = I.call_fn(P_TO, [pf])
    except Unanalysable as u:
        ck.fail(rule, "to_bytes:shape", f"unanalysable: {u.msg}", u.where or where, kind="unanalysable")
        return
    ok = isinstance(ret, Enum) and ret.variant == "Ok" and isinstance(ret.payload[0], Bytes) and len(ret.payload[0].parts) == 1 and ret.payload[0].parts[0][0] == "compressed" and ret.payload[0].parts[0][1] is pf
    ck.require(ok, rule, "to_bytes:whole-self", f"to_bytes must return exactly the compressed encoding of self (deterministic: reads only self); got {ret!r}", where)

"""WIRE engine: structural facts about encodings and derivations read from items + HIR."""
from . import facts as FX
from . import harness as H
from .alg import Bytes, Enum, Ite, Opaque, Unanalysable

P_TO = "r1cs::proof::R1CSProof::<G>::to_bytes"
P_FROM = "r1cs::proof::R1CSProof::<G>::from_bytes"

PROOF_FIELDS = [
    ("A_I1", "G"), ("A_O1", "G"), ("S1", "G"), ("A_I2", "G"), ("A_O2", "G"), ("S2", "G"),
    ("T_1", "G"), ("T_3", "G"), ("T_4", "G"), ("T_5", "G"), ("T_6", "G"),
    ("t_x", "<G as ark_ec::AffineRepr>::ScalarField"), ("t_x_blinding", "<G as ark_ec::AffineRepr>::ScalarField"), ("e_blinding", "<G as ark_ec::AffineRepr>::ScalarField"),
    ("ipp_proof", "inner_product_proof::InnerProductProof<G>"),
]
IPP_FIELDS = [("L_vec", "std::vec::Vec<G>"), ("R_vec", "std::vec::Vec<G>"), ("a", "<G as ark_ec::AffineRepr>::ScalarField"), ("b", "<G as ark_ec::AffineRepr>::ScalarField")]


def norm_ty(t):
    """type strings with bare type-parameter names replaced by $T (renaming a parameter is not a layout change)"""
    import re

    return re.sub(r"(?<![\w:])([A-Z]\w*)(?![\w:])", "$T", t)


PROOF_FIELDS = [(n, norm_ty(t)) for n, t in PROOF_FIELDS]
IPP_FIELDS = [(n, norm_ty(t)) for n, t in IPP_FIELDS]


def struct_fields(F, path):
    a = F.adts.get(path)
    if a is None:
        raise FX.AnchorMissing(path)
    return [(f["name"], norm_ty(f["ty"]), f["vis"]) for f in a["variants"][0]["fields"]]


def impls_of(F, self_prefix):
    return [i for i in F.items["impls"] if i["self_ty"].startswith(self_prefix)]


def codec_calls(F, fn_path):
    """all (de)serialisation entry points called in a function: list of (callee path, where)"""
    fn = F.fn(fn_path)
    out = []
    for n in FX.walk(fn["body"]):
        cp = FX.callee_info(n).get("path")
        if cp and ("ark_serialize::" in cp) and ("serialize" in cp.split("::")[-1]):
            out.append((cp, FX.short(n.get("sp"))))
    return out


def check_decode(ck, F, rule):
    """from_bytes: only deserialize_compressed (validated) on a cursor over the input; every failure -> FormatError"""
    fn = F.fn(P_FROM)
    ck.fn(P_FROM)
    where = FX.short(fn["sp"])
    calls = codec_calls(F, P_FROM)
    ok = [c for c, _ in calls] == ["ark_serialize::CanonicalDeserialize::deserialize_compressed"]
    ck.require(ok, rule, "from_bytes:validated-decoder", f"from_bytes must decode with exactly one call of deserialize_compressed (Compress::Yes, Validate::Yes); calls: {calls}", where)
    I = H.new_interp(F)
    try:
        inp = Bytes([("input", "slice")])
        ret = I.call_fn(P_FROM, [inp])
    except Unanalysable as u:
        ck.fail(rule, "from_bytes:shape", f"unanalysable: {u.msg}", u.where or where, kind="unanalysable")
        return
    # result must be: the decoded proof when decoding is Ok, Err(FormatError) on every failure; no other exit.
    # accepted spellings: if is_ok {Ok(unwrap)} else {Err(..)}, match, map_err
    okv = errv = None
    why = repr(ret)
    from . import analyses as AN_

    guards = []
    if isinstance(ret, Opaque) and ret.what == "result":
        okv, errv = ret.info.get("ok"), ret.info.get("err")
        guards = [it for it in I.trace.items if it[0] == "guard"]
    else:
        chain, final = AN_.exit_chain(I, ret)
        if len(chain) == 1 and getattr(chain[0][0], "op", "") == "is_ok" and chain[0][0].neg and isinstance(final, Enum) and final.variant == "Ok" and isinstance(chain[0][1], Enum):
            okv, errv = final.payload[0], chain[0][1].payload[0]
        else:
            guards = [(None, c_, e_) for c_, e_, _ in chain]
    good = isinstance(okv, Opaque) and okv.what == "decoded" and okv.info.get("via") == "deserialize_compressed" and isinstance(errv, Enum) and errv.variant == "FormatError" and "R1CSError" in errv.path
    ck.require(good and not guards, rule, "from_bytes:all-failures-FormatError", f"from_bytes must return the decoded proof when decoding is Ok and Err(R1CSError::FormatError) otherwise, with no other exit; got {why}, early exits {[(str(g[1]), repr(g[2])) for g in guards]}", where)
    # what is decoded is the caller's slice itself (read directly or through a Cursor over it), from its first byte
    src = okv.info.get("src") if isinstance(okv, Opaque) else None
    src = I.deref(src) if src is not None else None
    if isinstance(src, Opaque) and src.what == "cursor":
        src = I.deref(src.info.get("inner"))
    ck.require(src is inp, rule, "from_bytes:cursor-over-input", f"from_bytes must decode the input slice itself (directly or through one Cursor over it); the decoder reads from {src!r}", where)


def check_encode(ck, F, rule):
    fn = F.fn(P_TO)
    ck.fn(P_TO)
    where = FX.short(fn["sp"])
    calls = codec_calls(F, P_TO)
    ck.require([c for c, _ in calls] == ["ark_serialize::CanonicalSerialize::serialize_compressed"], rule, "to_bytes:compressed-encoder", f"to_bytes must encode with exactly one serialize_compressed of the whole proof; calls: {calls}", where)
    I = H.new_interp(F)
    from .harness import mk_proof

    pf = mk_proof()
    try:
        ret = I.call_fn(P_TO, [pf])
    except Unanalysable as u:
        ck.fail(rule, "to_bytes:shape", f"unanalysable: {u.msg}", u.where or where, kind="unanalysable")
        return
    from . import analyses as AN_

    # exits other than Ok(bytes) may only propagate a failure of the encoder itself (`?`, match, map_err spellings)
    chain, fin = AN_.exit_chain(I, ret)
    only_enc_errors = all((getattr(c_, "op", "") == "is_ok" and c_.neg) or (getattr(c_, "op", "") == "other" and getattr(c_, "text", "") == "io-error") for c_, _, _ in chain)
    ok = only_enc_errors and isinstance(fin, Enum) and fin.variant == "Ok" and isinstance(fin.payload[0], Bytes) and len(fin.payload[0].parts) == 1 and fin.payload[0].parts[0][0] == "compressed" and fin.payload[0].parts[0][1] is pf
    ck.require(ok, rule, "to_bytes:whole-self", f"to_bytes must return exactly the compressed encoding of self (deterministic: reads only self); got {ret!r}", where)


# ---------------------------------------------------------------------------------------------
# wire manifest (C18): every observable wire constant of the protocol, extracted from the program


def extract_manifest(F):
    from . import harness as H
    from . import schedule as SC
    from . import sched as S
    from . import analyses as AN
    from .alg import Bytes as _B
    from .interp import Tr

    man = {}
    rv, _ = SC.verifier_schedule(F)
    rp, _ = SC.prover_schedule(F)
    for role, r in (("verifier", rv), ("prover", rp)):
        syms = sorted(S.symbols_of(r))
        man[f"schedule_symbols.{role}"] = [f"{k}|{l}|{role_}" for k, l, role_ in syms]
    # clone side: the batching weight
    I = AN.verifier_scalars(F)["I"]
    man["clone_ops"] = sorted(f"{it[1]['kind']}|{(it[1]['label'] or b'?').decode(errors='replace')}" for it, ctx in AN.flat_trace(I.trace.items) if it[0] == "op" and it[1]["tr"].is_clone())
    # prover RNG
    P = AN.prover_run(F)
    rng = next((d["rng"] for d in P["I"].draw_log if getattr(d["rng"], "kind", "") != "chacha_seeded"), None)
    if rng is not None and rng.kind == "transcript_rng":
        b = rng.info["builder"]
        man["prover_rng.rekey_labels"] = sorted({(r["label"] or b"?").decode(errors="replace") for r in b.rekeys})
        man["prover_rng.rekey_payload"] = sorted({r["payload"].parts[0][0] if isinstance(r["payload"], _B) and r["payload"].parts else "?" for r in b.rekeys})
        man["prover_rng.kind"] = "merlin::TranscriptRng(build_rng -> rekey_with_witness_bytes* -> finalize(external))"
    else:
        man["prover_rng.kind"] = repr(rng)
    # challenge derivation
    Ic = H.new_interp(F)
    path = "<merlin::Transcript as transcript::TranscriptProtocol<G>>::challenge_scalar"
    Ic.call_fn(path, [Tr("t"), _B([("lit", b"lbl")])])
    d = Ic.draw_log
    if len(d) == 1:
        r = d[0]["rng"]
        seed = r.info.get("seed")
        man["challenge.prg"] = r.info.get("impl", "?")
        man["challenge.seed_bytes"] = seed.parts[0][1]["size"] if isinstance(seed, _B) and seed.parts and seed.parts[0][0] == "challenge" else "?"
        man["challenge.draws"] = r.draws
    else:
        man["challenge.prg"] = f"{len(d)} draws"
    # transcript encodings of points / scalars
    encs = set()
    for role, r in (("verifier", rv), ("prover", rp)):
        for s in S.symbols_of(r):
            if s[0] in ("append_point", "append_scalar"):
                encs.add(("compressed" if s[2].startswith("COMPRESSED:") else "uncompressed") + ":" + s[0])
            if s[2].startswith("bytes:"):
                encs.add("other:" + s[1])
    man["transcript.encodings"] = sorted(encs)
    # generator chain
    from .props import C12 as G12

    Ig = H.new_interp(F)
    ch = Ig.call_fn(G12.P_NEW, [_B([("lit", b"LBL")])])
    sf = G12.seed_facts(ch.fields.get("prng")) if hasattr(ch, "fields") else None
    if sf:
        man["chain.hash"] = sf["hash"]
        man["chain.hashed_parts"] = [repr(u.parts) if isinstance(u, _B) else repr(u) for u in sf["updates"]]
        man["chain.seed_slice"] = f"[{sf['lo']}..{sf['hi']})"
        man["chain.prg"] = sf["impl"]
    Ip = H.new_interp(F)
    Ip.call_fn(G12.P_DEF, [])
    dp = [x for x in Ip.draw_log if x["kind"] == "point"]
    sfp = G12.seed_facts(dp[0]["rng"]) if dp else None
    if sfp:
        man["pedersen.hash"] = sfp["hash"]
        man["pedersen.hashed_parts"] = [(u.parts[0][0] + "(" + str(u.parts[0][1].terms[0][1](0)) + ")") if isinstance(u, _B) and u.parts and hasattr(u.parts[0][1], "terms") else repr(u) for u in sfp["updates"]]
        man["pedersen.seed_slice"] = f"[{sfp['lo']}..{sfp['hi']})"
        man["pedersen.prg"] = sfp["impl"]
    # labels of increase_capacity
    calls = []

    def hook_new(I_, args, node):
        from .alg import Opaque

        from .interp import IterV as _IterV
        from .alg import Pt as _Pt
        import sympy as _sp

        c = Opaque("chain", label=I_.deref(args[0]), idx=[lc["isym"] for lc in I_.loop_ctx if lc.get("isym") is not None])
        calls.append(c)
        return _IterV(None, infinite=lambda i: _Pt.atom(_sp.Symbol("g")))

    def hook_ff(I_, args, node):
        from .interp import IterV
        from .alg import Pt
        import sympy as sp

        return IterV(None, infinite=lambda i: Pt.atom(sp.Symbol("g")))

    from .alg import IntV, Seg, Struct, Vec, isym, Pt
    from .interp import ReturnSignal
    import sympy as sp

    I4 = H.new_interp(F, {G12.P_NEW: hook_new, G12.P_FF: hook_ff})
    old, new, parties = isym("old"), isym("new"), isym("parties")
    Gv = Vec([Seg(parties, lambda i: Vec([Seg(old, lambda j: Pt.atom(sp.Symbol("g")))]))])
    gens = Struct("generators::BulletproofGens", {"gens_capacity": IntV(old), "party_capacity": IntV(parties), "G_vec": Gv, "H_vec": Gv})
    try:
        I4.call_fn(G12.P_INC, [gens, IntV(new)])
    except (ReturnSignal, Exception):
        pass
    labs = []
    for c in calls:
        sh = G12.label_shape(c.info["label"])
        if sh:
            labs.append(f"tag={sh[0]}({chr(sh[0]) if 32 < sh[0] < 127 else '?'}) rest={sh[1][0] if sh[1] else '?'}32(party index) len={1 + int(sh[1][2]) if sh[1] else '?'}")
        else:
            labs.append("unrecognised")
    man["chain.labels"] = labs
    # proof layout and codec
    man["layout.R1CSProof"] = [f"{n}:{t}" for n, t, _ in struct_fields(F, "r1cs::proof::R1CSProof")]
    man["layout.InnerProductProof"] = [f"{n}:{t}" for n, t, _ in struct_fields(F, "inner_product_proof::InnerProductProof")]
    man["codec.to_bytes"] = [c for c, _ in codec_calls(F, P_TO)]
    man["codec.from_bytes"] = [c for c, _ in codec_calls(F, P_FROM)]
    for adt in ("r1cs::proof::R1CSProof", "inner_product_proof::InnerProductProof"):
        man[f"codec.impls.{adt.split('::')[-1]}"] = sorted(f"{i['trait']}<-{i['expn']}" for i in F.items["impls"] if i["self_ty"].startswith(adt) and (i["trait"] or "").startswith("ark_serialize::"))
    return man

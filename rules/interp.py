"""TERM engine: abstract interpretation of typed+resolved HIR into the symbolic-term domain.

One generic iteration per loop (schemas), ite for value branches, guards recorded as
preconditions; transcript / RNG / hash operations are recorded as a structured effect trace
(which the SCHED engine folds into a regular expression).  No path enumeration, no solver.
"""
import sympy as sp

from . import facts as FX
from .alg import (
    BoolV,
    Bounds,
    Bytes,
    Closure,
    Cond,
    Enum,
    IntV,
    Ite,
    Opaque,
    Pt,
    Ref,
    Sc,
    Seg,
    Struct,
    Tup,
    Unanalysable,
    Val,
    Vec,
    eq,
    fresh,
    isym,
    le,
    lt,
    mk_prod,
    mk_sum,
    normalize_vec,
    sfun,
    show,
    ssym,
    val_eq,
    zip_vecs,
)

UNIT = Tup([])
SAFETY_LOG = []  # entries of every interpreter run in this process (PANIC engine reads them)


def slog(I, kind, e, ok, detail=""):
    SAFETY_LOG.append({"kind": kind, "spx": (e or {}).get("spx"), "sp": FX.short((e or {}).get("sp")), "fn": I.fn_stack[-1] if I.fn_stack else "", "ok": bool(ok), "detail": detail, "F": id(I.F)})


def pow2_eq(a, b):
    """equality modulo 2^x algebra (pow2 is an opaque function elsewhere): 2*pow2(j) == pow2(j+1)"""
    f = sfun("pow2")
    un = lambda x: sp.sympify(x).replace(lambda t: getattr(t, "func", None) == f, lambda t: sp.Integer(2) ** t.args[0])
    try:
        return sp.simplify(sp.powsimp(sp.expand(un(a) - un(b)))) == 0
    except Exception:
        return False


class ReturnSignal(Exception):
    def __init__(self, val):
        self.val = val


class LetElseEarly(Exception):
    """a let-else whose else block leaves with a *successful* value: handled as a conditional continuation by ev_Block"""

    def __init__(self, c_leave, stay):
        self.c_leave, self.stay = c_leave, stay


class BreakSignal(Exception):
    pass


class ContinueSignal(Exception):
    pass


class _RetryIndexRec(Exception):
    pass


# ---------------------------------------------------------------------------
# effect objects (reference semantics)


class Tr:
    """a Merlin transcript object; ops are appended to the interpreter's trace"""

    _n = 0

    def __init__(self, name, parent=None):
        Tr._n += 1
        self.id = Tr._n
        self.name = name
        self.parent = parent

    def root(self):
        return self if self.parent is None else self.parent.root()

    def is_clone(self):
        return self.parent is not None

    def __repr__(self):
        return f"Tr({self.name}{'/clone' if self.parent else ''})"


class RngV:
    """an RNG value: kind in {param, transcript_rng, chacha_seeded}; draws counted"""

    def __init__(self, kind, name, info=None):
        self.kind, self.name, self.info = kind, name, info or {}
        self.draws = 0

    def __repr__(self):
        return f"Rng({self.kind}:{self.name})"


class RngBuilder:
    def __init__(self, tr):
        self.tr = tr
        self.rekeys = []  # (label bytes, payload Bytes, loop ctx)


class HashV:
    def __init__(self, ty):
        self.ty = ty
        self.updates = []
        self.finalized = False

    def out_len(self):
        """digest size in bytes, read off the hash type name (None if unknown)"""
        import re as _re

        m = _re.search(r"(?:Sha3_|Sha|Keccak|Blake2[bs])(\d{3})", self.ty or "")
        return int(m.group(1)) // 8 if m else None


class IterV(Val):
    """an iterator over a Vec value (lazy adaptor chain is evaluated eagerly on segments)"""

    def __init__(self, vec, by_ref_mut=None, infinite=None):
        self.vec = vec
        self.mut_place = by_ref_mut  # Ref to the underlying vector place for iter_mut
        self.infinite = infinite  # callable abs index -> Val, for repeat()/exp_iter()

    def __repr__(self):
        return f"Iter({show(self.vec) if self.vec is not None else 'inf'})"


class UserIter(Val):
    """an iterator value of a crate-local type (its `next` is interpreted), optionally bounded by take(n)"""

    def __init__(self, place, limit=None):
        self.place, self.limit = place, limit

    def __repr__(self):
        return f"UserIter(limit={self.limit})"


class MutSlot(Val):
    """element of a vector handed out by iter_mut after the iterator went through an adaptor (zip, enumerate, skip,
    rev, ..): remembers the place and position it writes back to"""

    def __init__(self, place, idx, val):
        self.place, self.idx, self.val = place, idx, val

    def __repr__(self):
        return f"MutSlot({self.place.desc}[{self.idx}])"


class Trace:
    def __init__(self):
        self.items = []

    def add(self, *item):
        self.items.append(tuple(item))


class _CanonHooks:
    """view of the hook table keyed by canonical (generic-free) def paths; follows later additions"""

    def __init__(self, hooks):
        self.hooks = hooks

    def get(self, cpath):
        for k, v in self.hooks.items():
            if "::" in k and FX.canon_path(k) == cpath:
                return v
        return None


class Interp:
    """Interprets functions of one Facts object."""

    def __init__(self, F, hooks=None, max_inline=6):
        self.F = F
        self.trace = Trace()
        self.depth = 0
        self.max_inline = max_inline
        self.hooks = hooks or {}  # def path -> python callable(interp, args, node) overriding inlining
        self.hooks_canon = _CanonHooks(self.hooks)
        self.bounds = Bounds()
        self.fn_stack = []
        self.body_stack = []
        self.loop_base = []
        self.tail_ids = set()
        self.chal_count = {}
        self.draw_log = []  # (rng, atom, loop_ctx, where)
        self.loop_ctx = []  # stack of loop descriptors
        self.calls_seen = []
        self.asserts = []
        self.msm_log = []
        self.map_ctx = []
        self.recurrences = []
        self.assumed = []
        self.havoc_count = 0
        self.scatter = None
        self.watch_calls = {"generators::BulletproofGensShare::<'a, G>::G", "generators::BulletproofGensShare::<'a, G>::H", "generators::BulletproofGens::<G>::share"}
        self.max_facts = []
        self.all_subst = {}
        self.loop_log = []

    # -- tracing ---------------------------------------------------------------
    def sub_trace(self):
        old = self.trace
        self.trace = Trace()
        return old

    # -- entry -----------------------------------------------------------------
    def call_fn(self, path, args, node=None):
        """inline a crate-local function by def path with evaluated args"""
        path = self.F.resolve(path)
        fn = self.F.fns[path]
        if self.depth > self.max_inline:
            raise Unanalysable(f"inlining depth exceeded at {path}")
        env = {}
        params = fn["params"]
        if len(params) != len(args):
            raise Unanalysable(f"arity mismatch calling {path}")
        for p, a in zip(params, args):
            self.bind(p["pat"], a, env)
        self.depth += 1
        self.fn_stack.append(path)
        self.calls_seen.append(path)
        if path in self.watch_calls:
            self.trace.add("callmark", {"path": path, "args": [self.deref(a) if not isinstance(a, Ref) else None for a in args], "where": FX.short((node or {}).get("sp")), "fn": self.fn_stack[-2] if len(self.fn_stack) > 1 else ""})
        self.body_stack.append(FX.strip(fn["body"]))
        t0, n0 = self.trace, len(self.trace.items)
        try:
            try:
                if (fn.get("ret_ty") or "").startswith("&mut "):
                    v = self.ev_raw(fn["body"], env)  # an accessor handing out `&mut field`: keep the place
                else:
                    v = self.ev(fn["body"], env)
            except ReturnSignal as r:
                v = r.val
        finally:
            self.depth -= 1
            self.fn_stack.pop()
            self.body_stack.pop()
        if self.trace is t0 and self.has_failure_exit(t0.items[n0:]):
            v = self.mark_fallible(v, path)
        return v

    # Failure exits (`return Err(..)`, `?`, `None`) are recorded as guards: the failing path is dropped from the analysed
    # executions.  That is right as long as every caller hands the failure on.  A caller that *handles* it (`if let Ok`,
    # `.ok()`, `unwrap_or`, `let _ =`, a match arm that carries on) continues on a path the analysis no longer has, so the
    # value such a callee returns is marked and every consumer other than propagation is refused (fail closed).
    def has_failure_exit(self, items):
        for it in items:
            if it[0] == "guard":
                rv = it[2]
                if isinstance(rv, Enum) and rv.variant in ("Err", "None"):
                    return True
            elif it[0] == "star":
                if self.has_failure_exit(it[1]):
                    return True
            elif it[0] == "alt":
                if self.has_failure_exit(it[2]) or self.has_failure_exit(it[3]):
                    return True
        return False

    def mark_fallible(self, v, path):
        import copy as _copy

        d = v
        if isinstance(d, (Enum, Ite)) or (isinstance(d, Opaque) and d.what == "result"):
            d = _copy.copy(d)
            d.fallible = path
            return d
        return v

    def refuse_handled_failure(self, v, how, where):
        src = getattr(v, "fallible", None)
        if src:
            raise Unanalysable(f"a failure of {src} is {how} instead of being propagated (the analysis drops failing paths at the point of failure; a caller that carries on after a failure is outside the fragment)", where)

    # -- patterns ----------------------------------------------------------------
    def bind(self, pat, val, env):
        k = pat["k"]
        if k == "Wild":
            return
        if k == "Bind":
            env[pat["id"]] = val
            if "sub" in pat:
                self.bind(pat["sub"], val, env)
            return
        if k == "RefPat":
            return self.bind(pat["pat"], val, env)
        if k == "TuplePat" and isinstance(val, Ref) and isinstance(self.deref(val), Tup) and len(self.deref(val).items) == len(pat["pats"]):
            # projection references into a tuple behind a mutable reference
            for i, p_ in enumerate(pat["pats"]):

                def g(i=i):
                    return self.deref(val.get()).items[i]

                def s_(nv, i=i):
                    cur = self.deref(val.get())
                    items = list(cur.items)
                    items[i] = nv
                    val.set(Tup(items))

                self.bind(p_, Ref(g, s_, f"{val.desc}.{i}", root_id=val.root_id), env)
            return
        if k == "TuplePat":
            v = self.deref(val)
            if isinstance(v, Ite) and isinstance(v.a, Tup) and isinstance(v.b, Tup):
                items = [Ite(v.cond, x, y) if not val_eq(x, y) else x for x, y in zip(v.a.items, v.b.items)]
                v = Tup(items)
            if not isinstance(v, Tup) or len(v.items) != len(pat["pats"]):
                raise Unanalysable(f"tuple pattern against {v!r}")
            for p, x in zip(pat["pats"], v.items):
                self.bind(p, x, env)
            return
        if k == "TupleStructPat":
            v = self.deref(val)
            if isinstance(v, Enum) and len(v.payload) == len(pat["pats"]):
                for p, x in zip(pat["pats"], v.payload):
                    self.bind(p, x, env)
                return
            if isinstance(v, Struct) and len(v.fields) == len(pat["pats"]) and all(str(i_) in v.fields for i_ in range(len(pat["pats"]))):
                # destructuring a tuple struct: `let VecPoly3(a, b, c, d) = poly;`
                for i_, p in enumerate(pat["pats"]):
                    self.bind(p, v.fields[str(i_)], env)
                return
            raise Unanalysable(f"tuple-struct pattern against {v!r}")
        if k == "StructPat":
            v = self.deref(val)
            if isinstance(v, Struct):
                for f in pat["fields"]:
                    self.bind(f["pat"], v.fields[f["name"]], env)
                return
            raise Unanalysable(f"struct pattern against {v!r}")
        if k == "SlicePat" and pat.get("mid") is None and not pat["after"]:
            v = self.deref(val)
            if isinstance(v, Vec) and eq(v.length(), len(pat["before"])):
                for i, p in enumerate(pat["before"]):
                    self.bind(p, v.index(sp.Integer(i), self.bounds), env)
                return
            if isinstance(v, Bytes) and len(v.parts) == 1 and v.parts[0][0] == "u32" and len(pat["before"]) == 4:
                # `let [b0, b1, b2, b3] = x.to_le_bytes()`: the four encoding bytes, by position
                for i, p in enumerate(pat["before"]):
                    self.bind(p, Opaque("byte-of", src=v, j=sp.Integer(i)), env)
                return
            raise Unanalysable(f"slice pattern against {v!r}")
        raise Unanalysable(f"pattern kind {k}")

    def deref(self, v):
        while True:
            if isinstance(v, Ref):
                v = v.get()
            elif isinstance(v, MutSlot):
                v = v.val
            elif isinstance(v, Ite) and self.assumed:
                pick = self.pick_assumed(v.cond)
                if pick is None:
                    return v
                v = v.a if pick else v.b
            else:
                return v

    def pick_assumed(self, c):
        if not isinstance(c, Cond):
            return None
        base = Cond(c.op, c.a, c.b, False, c.text).key()
        for k, pol in self.assumed:
            if k == base:
                return pol != c.neg
        return None

    def assuming(self, c, truth):
        if isinstance(c, Cond):
            base = Cond(c.op, c.a, c.b, False, c.text).key()
            self.assumed.append((base, truth != c.neg))
        else:
            self.assumed.append((None, truth))

    # -- places ------------------------------------------------------------------
    def place(self, e, env):
        """evaluate an lvalue expression to a Ref"""
        k = e["k"]
        if k == "Path" and e["res"]["k"] == "Local":
            lid = e["res"]["id"]
            name = e["res"].get("name", "?")
            cur = env.get(lid)
            if isinstance(cur, Ref):
                return cur

            def g(lid=lid, name=name):
                if lid not in env:
                    raise Unanalysable(f"use of unbound local {name}")
                return env[lid]

            def s(v, lid=lid):
                env[lid] = v

            return Ref(g, s, name, root_id=lid)
        if k == "Field":
            base = self.place(e["base"], env)
            name = e["name"]

            def g(base=base, name=name):
                b = self.deref(base.get())
                return self.get_field(b, name, e)

            def s(v, base=base, name=name):
                b = self.deref(base.get())
                if isinstance(b, Struct):
                    b.fields[name] = v
                elif isinstance(b, Tup) and name.isdigit():
                    b.items[int(name)] = v
                else:
                    raise Unanalysable(f"field assignment on {b!r}")

            return Ref(g, s, f"{base.desc}.{name}", root_id=base.root_id)
        if k == "Index":
            ci_ = FX.callee_info(e)
            if ci_.get("resolved_local") and ci_.get("resolved") in self.F.fns:
                # Index / IndexMut implemented by the crate for its own type (a newtype around a Vec, ..): interpret it
                r_ = self.call_fn(ci_["resolved"], [self.place(e["base"], env), self.ev(e["idx"], env)], e)
                if isinstance(r_, Ref):
                    return r_
                box_ = [r_]
                return Ref(lambda: box_[0], lambda nv: box_.__setitem__(0, nv), "indexed-tmp")
            base = self.place(e["base"], env)
            idx = self.ev(e["idx"], env)

            def g(base=base, idx=idx):
                if self.scatter is not None and isinstance(idx, IntV):
                    bb = self.deref(base.get())
                    if isinstance(bb, Vec):
                        self.log_index(bb, idx, e)
                    return Sc(ssym("OLD:" + base.desc))
                return self.index_val(self.deref(base.get()), idx, e)

            def s(v, base=base, idx=idx):
                b = self.deref(base.get())
                self.index_write(base, b, idx, v, e)

            r_ = Ref(g, s, f"{base.desc}[{getattr(idx, 'e', idx)}]", root_id=base.root_id)
            if isinstance(idx, Struct) and idx.path == "Range":
                r_.slice_of = (base, (idx.fields.get("start") or IntV(0)).e)
            return r_
        if k == "Unary" and e.get("op") == "*":
            inner = self.ev_raw(e["e"], env)
            if isinstance(inner, Ref):
                return inner
            if isinstance(inner, MutSlot):
                raise Unanalysable("write through an element of a mutable iterator outside a for loop", FX.short(e.get("sp")))
            if (e["e"].get("ty") or "").startswith("&mut ") and e["e"]["k"] == "Path" and isinstance(inner, (Sc, IntV, Pt)):
                # `*r = ..` where r: &mut T holds a plain value: the referent was lost on the way (the write would vanish)
                raise Unanalysable("place behind a mutable reference is not tracked", FX.short(e.get("sp")))
            # deref of a by-value binding holding a plain value (e.g. &T param evaluated by value)
            return self.place(e["e"], env)
        if k == "AddrOf":
            return self.place(e["e"], env)
        if k == "MethodCall" and FX.callee_path(e) and FX.callee_path(e).endswith(("BorrowMut::borrow_mut", "Borrow::borrow")):
            return self.place(e["recv"], env)
        # temporaries
        v = self.ev_raw(e, env)
        if isinstance(v, Ref):
            return v
        box = [v]
        return Ref(lambda: box[0], lambda nv: box.__setitem__(0, nv), "tmp")

    def get_field(self, b, name, e=None):
        if isinstance(b, Struct):
            if name not in b.fields:
                raise Unanalysable(f"no field {name} on {b.path}")
            return b.fields[name]
        if isinstance(b, Tup) and name.isdigit():
            return b.items[int(name)]
        if isinstance(b, Ite):
            return Ite(b.cond, self.get_field(b.a, name), self.get_field(b.b, name))
        if isinstance(b, Opaque) and "fields" in b.info and name in b.info["fields"]:
            return b.info["fields"][name]
        raise Unanalysable(f"field {name} of {b!r}", FX.short((e or {}).get("sp")))

    def pending_write(self, b, idx):
        """value written earlier in the current generic iteration to the very element that is read now (`a[i] *= u; a[i] += ..`)"""
        if not isinstance(idx, IntV):
            return None
        for lc_ in reversed(self.loop_ctx):
            for w_ref, w_idx, w_v, _ in reversed(lc_.get("writes", [])):
                try:
                    if self.deref(w_ref.get()) is b and eq(w_idx, idx.e):
                        return w_v
                except Unanalysable:
                    continue
        return None

    def index_val(self, b, idx, e=None):
        b = self.deref(b)
        if self.newtype_inner(b) is not None:
            b = self.newtype_inner(b)
        if self.loop_ctx and isinstance(b, Vec):
            pw = self.pending_write(b, idx)
            if pw is not None:
                return pw
        if isinstance(b, IterV):
            b = b.vec
        if isinstance(idx, Opaque) and idx.what == "rangefull":
            return b
        if isinstance(b, Opaque) and b.what == "digest" and isinstance(idx, Struct) and idx.path == "Range":
            lo = idx.fields.get("start")
            hi = idx.fields.get("end")
            return Bytes([("digest-slice", b.info["hash"], str(lo.e) if lo is not None else "0", str(hi.e) if hi is not None else "end")])
        if isinstance(idx, Struct) and idx.path == "Range" and isinstance(b, Vec):
            lo = idx.fields.get("start") or IntV(0)
            hi = idx.fields.get("end")
            if hi is None:
                hi = IntV(b.length())
            ok = le(0, lo.e, self.bounds) and le(lo.e, hi.e, self.bounds) and le(hi.e, b.length(), self.bounds)
            slog(self, "slice", e, ok, f"[{sp.expand(lo.e)}..{sp.expand(hi.e)}) of length {b.length()}")
            return b.slice(lo.e, hi.e, self.bounds)
        if isinstance(b, Vec) and isinstance(idx, IntV):
            self.log_index(b, idx, e)
            return b.index(idx.e, self.bounds)
        raise Unanalysable(f"index {idx!r} into {b!r}", FX.short((e or {}).get("sp")))

    def log_index(self, b, idx, e):
        ln = b.length()
        if ln.has(isym("inf")):
            slog(self, "index", e, False, f"index {sp.expand(idx.e)} into a vector defined by recurrence")
            return
        ok = le(0, idx.e, self.bounds) and lt(idx.e, ln, self.bounds)
        slog(self, "index", e, ok, f"index {sp.expand(idx.e)} into length {ln}")

    def index_write(self, base_ref, b, idx, v, e=None):
        if isinstance(b, Vec) and isinstance(idx, Struct) and idx.path == "Range":
            lo = (idx.fields.get("start") or IntV(0)).e
            hi = idx.fields["end"].e if idx.fields.get("end") is not None else b.length()
            ok = le(0, lo, self.bounds) and le(lo, hi, self.bounds) and le(hi, b.length(), self.bounds)
            slog(self, "slice", e, ok, f"[{sp.expand(lo)}..{sp.expand(hi)}) of length {b.length()}")
            pre, rest = b.split_at(lo, self.bounds)
            mid, post = rest.split_at(sp.expand(hi - lo), self.bounds)
            if isinstance(v, Vec):
                newmid = v.segs
            else:
                newmid = [Seg(sp.expand(hi - lo), lambda j, v=v: Opaque("part-of", value=v, j=j))]
            base_ref.set(Vec(pre.segs + newmid + post.segs))
            return
        if isinstance(b, Bytes) and (isinstance(idx, Opaque) and idx.what == "rangefull" or isinstance(idx, Struct) and idx.path == "Range"):
            base_ref.set(v if isinstance(v, Bytes) else Bytes([("written", v)]))
            return
        if not (isinstance(b, Vec) and isinstance(idx, IntV)):
            raise Unanalysable(f"indexed write {idx!r} into {b!r}")
        real_len = next((lc_["irec_len"][base_ref.root_id] for lc_ in reversed(self.loop_ctx) if base_ref.root_id in lc_.get("irec_len", {})), None)
        if real_len is not None:
            slog(self, "index", e, le(0, idx.e, self.bounds) and lt(idx.e, real_len, self.bounds), f"index {sp.expand(idx.e)} into length {real_len}")
        else:
            self.log_index(b, idx, e)
        if self.scatter is not None:
            self.scatter.append({"target": base_ref.desc, "root": base_ref.root_id, "idx": idx.e, "value": v, "old": ssym("OLD:" + base_ref.desc), "where": FX.short((e or {}).get("sp")), "loops": [(lc["isym"], lc["n"]) for lc in self.loop_ctx if lc.get("isym") is not None]})
            return
        # inside a loop over the index symbol: element-wise write schema
        for lc in reversed(self.loop_ctx):
            if lc.get("isym") is not None and idx.e.has(lc["isym"]):
                self.refuse_conditional_loop_effect("indexed write", e)
                lc["writes"].append((base_ref, idx.e, v, e))
                return
        base_ref.set(b.set_index(idx.e, v, self.bounds))

    # -- expressions ---------------------------------------------------------------
    def ev(self, e, env):
        return self.deref(self.ev_raw(e, env))

    def ev_raw(self, e, env):
        k = e["k"]
        m = getattr(self, "ev_" + k, None)
        if m is None:
            raise Unanalysable(f"expression kind {k}", FX.short(e.get("sp")))
        try:
            return m(e, env)
        except Unanalysable as u:
            if not u.where:
                u.where = FX.short(e.get("sp"))
            raise

    def ev_Lit(self, e, env):
        lk = e["lk"]
        if lk == "Int":
            return IntV(int(e["v"]))
        if lk == "Bool":
            return BoolV(bool(e["v"]))
        if lk == "ByteStr":
            return Bytes([("lit", bytes(e["bytes"]))])
        if lk == "Str":
            return Bytes([("lit", e["v"].encode())])
        if lk == "Byte":
            return IntV(int(e["v"]))
        raise Unanalysable(f"literal {lk}")

    def ev_Path(self, e, env):
        r = e["res"]
        if r["k"] == "Local":
            if r["id"] not in env:
                raise Unanalysable(f"unbound local {r.get('name')}", FX.short(e.get("sp")))
            return env[r["id"]]
        if r["k"] == "Def":
            dk = r["dk"]
            if dk.startswith("Ctor"):
                # unit-like / tuple constructors used as values
                return Enum(r.get("ctor_of", r["path"]), r["path"].split("::")[-1], [])
            if dk.startswith(("Fn", "AssocFn")):
                return Opaque("fn", path=r.get("resolved") or r["path"])
            if dk.startswith(("Const", "AssocConst")):
                bits = {"std::num::<impl usize>::BITS": 64, "std::num::<impl u64>::BITS": 64, "std::num::<impl u32>::BITS": 32}
                if r["path"] in bits:
                    return IntV(bits[r["path"]])
                if r.get("local") and r["path"] in self.F.fns and self.F.fns[r["path"]]["dk"].startswith(("Const", "AssocConst")):
                    try:
                        return self.deref(self.ev_raw(self.F.fns[r["path"]]["body"], {}))
                    except Unanalysable:
                        pass
                return Opaque("const", path=r["path"])
            if r["path"].endswith("RangeFull"):
                return Opaque("rangefull")
        raise Unanalysable(f"path {r}", FX.short(e.get("sp")))

    def ev_AddrOf(self, e, env):
        if e["mut"]:
            return self.place(e["e"], env)
        return self.ev_raw(e["e"], env)

    def ev_Block(self, e, env):
        for idx, s in enumerate(e["stmts"]):
            sk = s["k"]
            if sk == "Let":
                if s["init"] is None:
                    continue
                v = self.ev_raw(s["init"], env)
                if s.get("els"):
                    try:
                        v = self.let_else(s, self.deref(v), env)
                    except LetElseEarly as le_:
                        if not (self.body_stack and self.body_stack[-1] is e):
                            raise Unanalysable("let-else whose else block returns a non-error value (not at function-body level)", FX.short(s.get("sp") or s["init"].get("sp")))
                        # `let PAT = v else { return <success> };` at function-body level: if the value does not match, the
                        # else block is the whole rest of the function; otherwise the rest of the body runs with PAT bound to
                        # the matching alternative -- a conditional continuation like `if c { return X }`
                        inner_let = dict(s)
                        inner_let["init"] = {"k": "_Val", "v": le_.stay, "sp": s["init"].get("sp"), "ty": s["init"].get("ty")}
                        rest = {"k": "Block", "stmts": [inner_let] + e["stmts"][idx + 1:], "expr": e.get("expr"), "sp": e.get("sp"), "ty": e.get("ty")}
                        fake = {"k": "If", "c": {"k": "_Val", "v": BoolV(le_.c_leave)}, "t": s["els"], "f": rest, "_cont": True, "sp": s.get("sp") or e.get("sp"), "spx": s.get("spx"), "ty": e.get("ty")}
                        self.body_stack.append(rest)
                        try:
                            return self.ev_If(fake, env)
                        finally:
                            self.body_stack.pop()
                if s["pat"]["k"] == "Wild":
                    self.refuse_handled_failure(v if not isinstance(v, Ref) else None, "discarded (`let _ =`)", FX.short(s["init"].get("sp")))
                # bind by value unless the initialiser is an explicit mutable borrow
                if not (isinstance(v, Ref) and self.is_mut_borrow(s["init"])):
                    v = self.deref(v)
                self.bind(s["pat"], v, env)
            elif sk in ("Expr", "Semi"):
                x = FX.strip(s["e"])
                if x["k"] == "If" and x.get("f") is None and x["c"]["k"] != "LetExpr" and self.is_bare_jump(x["t"], "Continue") and getattr(self, "loop_body_ids", None) and id(e) in self.loop_body_ids[-1]:
                    # `if c { continue; } rest` at the top level of a loop body  ==  `if !c { rest }`
                    c_ = self.decide(self.as_cond(self.ev(x["c"], env)))
                    if isinstance(c_, bool):
                        if c_:
                            raise ContinueSignal()
                        continue
                    rest = {"k": "Block", "stmts": e["stmts"][idx + 1:], "expr": e.get("expr"), "sp": e.get("sp"), "ty": "()"}
                    fake = {"k": "If", "c": {"k": "_Val", "v": BoolV(c_.negate())}, "t": rest, "f": None, "sp": x.get("sp"), "spx": x.get("spx"), "ty": "()"}
                    self.ev_If(fake, env)
                    return UNIT
                if self.body_stack and self.body_stack[-1] is e and x["k"] == "If" and x.get("f") is None and x["c"]["k"] != "LetExpr" and self.block_always_returns(x["t"]):
                    # `if c { effects; return X }` at function-body level: the rest of the body is the else branch
                    snap = self.snapshot(env)
                    try:
                        self.ev_raw(s["e"], env)
                    except Unanalysable as u:
                        if u.msg not in ("effects inside an early-return branch", "early return of a non-error value"):
                            raise
                        self.restore(env, snap)
                        rest = {"k": "Block", "stmts": e["stmts"][idx + 1:], "expr": e.get("expr"), "sp": e.get("sp"), "ty": e.get("ty")}
                        fake = dict(x)
                        fake["f"] = rest
                        fake["_cont"] = True
                        self.body_stack.append(rest)
                        try:
                            return self.ev_If(fake, env)
                        finally:
                            self.body_stack.pop()
                    continue
                v_ = self.ev_raw(s["e"], env)
                if sk == "Semi":
                    self.refuse_handled_failure(v_ if not isinstance(v_, Ref) else None, "discarded", FX.short(s["e"].get("sp")))
            elif sk == "Item":
                continue
        if e.get("expr") is not None:
            if self.body_stack and self.body_stack[-1] is e:
                self.tail_ids.add(id(FX.strip(e["expr"])))
            return self.ev_raw(e["expr"], env)
        return UNIT

    def let_else(self, s, v, env):
        """`let PAT = init else { diverge };` : the value that matches PAT (the other alternative leaves through the else
        block, recorded as an exit guard like `?`)"""
        pat = s["pat"]
        where = FX.short(s.get("sp") or s["init"].get("sp"))
        if isinstance(v, Opaque) and v.what == "result":
            c = Cond("is_ok", text=repr(v))
            v = Ite(c, Enum("Result", "Ok", [v.info.get("ok", UNIT)]), Enum("Result", "Err", [v.info.get("err", Opaque("error-value"))]))

        def leave():
            try:
                self.ev_raw(s["els"], env)
            except ReturnSignal as r:
                return r.val
            raise Unanalysable("let-else whose else block does not return", where)

        if isinstance(v, Enum):
            if self.pat_matches(pat, v):
                return v
            raise ReturnSignal(leave())
        def all_leave(x):
            x = self.deref(x)
            if isinstance(x, Enum):
                return not self.pat_matches(pat, x)
            if isinstance(x, Ite):
                return all_leave(x.a) and all_leave(x.b)
            raise Unanalysable(f"let-else on {x!r}", where)

        def guard_out(c_leave, truth_of_cond, stay=None):
            old = self.sub_trace()
            self.assuming(c_leave if not getattr(c_leave, "neg", False) else c_leave.negate(), truth_of_cond)
            try:
                rv = leave()
            finally:
                self.assumed.pop()
                sub_ = self.trace
                self.trace = old
            if any(it[0] != "guard" for it in sub_.items):
                raise Unanalysable("effects inside the else block of a let-else", where)
            if not self.is_abort_value(self.deref(rv)):
                if stay is not None:
                    raise LetElseEarly(c_leave, stay)
                raise Unanalysable("let-else whose else block returns a non-error value", where)
            self.trace.add("guard", c_leave, rv, where, self.fn_stack[-1] if self.fn_stack else "")
            self.learn(c_leave)

        def resolve(x):
            x = self.deref(x)
            if isinstance(x, Enum):
                return x
            la, lb = all_leave(x.a), all_leave(x.b)
            if la and lb:
                raise ReturnSignal(leave())
            if la:
                guard_out(x.cond, True, stay=x.b)
                return resolve(x.b)
            if lb:
                guard_out(x.cond.negate(), False, stay=x.a)
                return resolve(x.a)
            ra, rb = resolve(x.a), resolve(x.b)
            return ra if val_eq(ra, rb) else Ite(x.cond, ra, rb)

        if isinstance(v, Ite) and isinstance(v.cond, Cond):
            return resolve(v)
        raise Unanalysable(f"let-else on {v!r}", where)

    def is_mut_borrow(self, e):
        if e["k"] == "AddrOf" and e["mut"]:
            return True
        if e["k"] == "MethodCall":
            p = FX.callee_path(e) or ""
            return p.endswith(("BorrowMut::borrow_mut", "iter_mut"))
        if e["k"] == "Index" and e.get("ty", "").startswith("&mut"):
            return True
        return e.get("ty", "").startswith("&mut ")

    def ev_Tup(self, e, env):
        out = []
        for x in e["es"]:
            v = self.ev_raw(x, env)
            # a mutable borrow stored in a tuple keeps its place (`(&mut w[i], flag)`)
            out.append(v if isinstance(v, Ref) and self.is_mut_borrow(x) else self.deref(v))
        return Tup(out)

    def ev_Array(self, e, env):
        return Vec.lit([self.ev(x, env) for x in e["es"]])

    def ev_Repeat(self, e, env):
        v = self.ev(e["e"], env)
        ln = e["len"]
        import re

        m = re.search(r"(\d+)", ln)
        n = int(m.group(1)) if m else None
        ty = e.get("ty", "")
        m2 = re.search(r";\s*(\d+)\]", ty)
        if m2:
            n = int(m2.group(1))
        if n is None:
            raise Unanalysable("array repeat length")
        if isinstance(v, IntV) and "u8" in ty:
            return Bytes([("zeros", n)])
        return Vec.const(v, n)

    def ev_Cast(self, e, env):
        v = self.ev(e["e"], env)
        if isinstance(v, IntV):
            return v
        raise Unanalysable(f"cast of {v!r}")

    def ev_Field(self, e, env):
        b = self.ev(e["base"], env)
        return self.get_field(b, e["name"], e)

    def ev_Index(self, e, env):
        ci_ = FX.callee_info(e)
        if ci_.get("resolved_local") and ci_.get("resolved") in self.F.fns:
            return self.deref(self.call_fn(ci_["resolved"], [self.ev_raw(e["base"], env), self.ev(e["idx"], env)], e))
        b = self.ev(e["base"], env)
        i = self.ev(e["idx"], env)
        if self.loop_ctx and isinstance(b, Vec):
            # remembered per enclosing summarised loop: a read of an element that another iteration writes is a
            # cross-iteration dependence the element-wise write schema cannot express
            for lc_ in self.loop_ctx:
                if "reads" in lc_:
                    lc_["reads"].append((b, i, e))
        return self.index_val(b, i, e)

    def ev_Struct(self, e, env):
        r = e["res"]
        path = r.get("path", "?")
        fields = {f["name"]: self.ev(f["e"], env) for f in e["fields"]}
        if path.endswith("ops::Range") or path.endswith("range::Range"):
            return Struct("Range", fields)
        if path.endswith("RangeFrom"):
            return Struct("Range", {"start": fields["start"], "end": None})
        if path.endswith("RangeFull"):
            return Opaque("rangefull")
        if path.endswith("RangeTo"):
            return Struct("Range", {"start": None, "end": fields["end"]})
        if r.get("dk", "").startswith("Variant") or r["k"] == "Def" and r["dk"] == "Variant":
            return Enum(path.rsplit("::", 1)[0], path.split("::")[-1], [Struct(path, fields)])
        return Struct(path, fields)

    def ev_Closure(self, e, env):
        return Closure(e, env, None)

    def ev_Ret(self, e, env):
        v = self.ev(e["e"], env) if e.get("e") else UNIT
        raise ReturnSignal(v)

    def ev__Val(self, e, env):
        return e["v"]

    def ev__Py(self, e, env):
        return e["f"](env)

    def local_next_fn(self, v):
        """def path of the crate's own `Iterator::next` for a struct value (None if the type has none)"""
        if not isinstance(v, Struct):
            return None
        want = f"<{v.path} as std::iter::Iterator>::next"
        hits = [p for p in self.F.fns if FX.canon_path(p) == want]
        return hits[0] if len(hits) == 1 else None

    def user_iter_loop(self, ui, per_elem, env, e):
        """`limit` calls of the type's own `next`, one generic iteration; every call must yield Some on the analysed path"""
        where = FX.short((e or {}).get("sp"))
        if ui.limit is None:
            raise Unanalysable("loop over an unbounded crate-local iterator", where)
        st = self.deref(ui.place)
        nxt = self.local_next_fn(st)
        if nxt is None:
            raise Unanalysable(f"no local Iterator::next for {st!r}", where)

        def body(env_):
            r = self.deref(self.call_fn(nxt, [ui.place]))
            if not (isinstance(r, Enum) and r.variant == "Some"):
                raise Unanalysable(f"crate-local iterator may end early: next() = {r!r}", where)
            per_elem(r.payload[0])
            return UNIT

        itv = IterV(Vec([Seg(ui.limit, lambda jj: IntV(jj))]))
        self.run_loop({"k": "Wild"}, itv, {"k": "_Py", "f": body, "sp": (e or {}).get("sp")}, env, e or {})

    def ev_Break(self, e, env):
        raise BreakSignal()

    def ev_Continue(self, e, env):
        # only a `continue` that is unconditional on the evaluated path ends the generic iteration early
        if len(self.assumed) > (self.loop_base[-1] if self.loop_base else 0):
            raise Unanalysable("continue under a symbolic condition", FX.short(e.get("sp")))
        raise ContinueSignal()

    def refuse_conditional_loop_effect(self, what, e):
        """pushes / element writes of a summarised loop are collected per iteration and applied for *every* iteration: one
        that happens only under a condition evaluated inside the body (`if c { continue; } v.push(..)`) would be applied
        unconditionally (seeded change C01i slipped through exactly so once conditional `continue` was modelled)"""
        if self.loop_base and len(self.assumed) > self.loop_base[-1]:
            raise Unanalysable(f"{what} under a condition evaluated inside a summarised loop body (the number / positions of the elements would depend on data)", FX.short((e or {}).get("sp")))

    def run_body(self, body, env):
        """evaluate a loop body for one (generic) iteration"""
        self.loop_base.append(len(self.assumed))
        if not hasattr(self, "loop_body_ids"):
            self.loop_body_ids = []
        self.loop_body_ids.append({id(body), id(FX.strip(body)) if isinstance(body, dict) and "k" in body else id(body)})
        try:
            self.ev_raw(body, env)
        except ContinueSignal:
            pass
        finally:
            self.loop_base.pop()
            self.loop_body_ids.pop()

    @staticmethod
    def is_bare_jump(b, kind):
        """the block consists of exactly one `continue` / `break` (no other statement)"""
        if b is None:
            return False
        if b["k"] == kind:
            return True
        if b["k"] != "Block":
            return False
        items = [s_["e"] for s_ in b["stmts"] if s_["k"] in ("Semi", "Expr")] + ([b["expr"]] if b.get("expr") is not None else [])
        return len(items) == 1 and len(b["stmts"]) <= 1 and FX.strip(items[0])["k"] == kind

    def ev_Assign(self, e, env):
        v = self.ev(e["r"], env)
        if e["l"]["k"] == "Tup":
            if not isinstance(v, Tup):
                raise Unanalysable("destructuring assignment of non-tuple")
            for le_, x in zip(e["l"]["es"], v.items):
                self.place(le_, env).set(x)
            return UNIT
        if e["l"]["k"] == "Path" and e["l"]["res"]["k"] == "Local":
            env[e["l"]["res"]["id"]] = v  # rebinding (also of reference-typed locals)
            return UNIT
        self.place(e["l"], env).set(v)
        return UNIT

    def ev_AssignOp(self, e, env):
        pl = self.place(e["l"], env)
        cur = self.deref(pl.get())
        r = self.ev(e["r"], env)
        op = e["op"].rstrip("=")
        nv = self.binop(op, cur, r, e)
        pl.set(nv)
        return UNIT

    def ev_Unary(self, e, env):
        op = e["op"]
        if op == "*":
            v = self.ev_raw(e["e"], env)
            return self.deref(v)
        v = self.ev(e["e"], env)
        if op == "-":
            return self.neg(v, e)
        if op == "!":
            if isinstance(v, BoolV):
                if isinstance(v.e, bool):
                    return BoolV(not v.e)
                return BoolV(v.e.negate())
        raise Unanalysable(f"unary {op} on {v!r}")

    def neg(self, v, e=None):
        if isinstance(v, Sc):
            return Sc(-v.e)
        if isinstance(v, Pt):
            return v.neg()
        if isinstance(v, IntV):
            return IntV(-v.e)
        if isinstance(v, Struct) and e is not None and FX.callee_info(e).get("resolved_local"):
            return self.call_fn(FX.callee_info(e)["resolved"], [v], e)
        raise Unanalysable(f"negation of {v!r}")

    def ev_Binary(self, e, env):
        op = e["op"]
        if op in ("&&", "||"):
            l = self.ev(e["l"], env)
            lc_ = self.decide(l.e) if isinstance(l, BoolV) else None
            if isinstance(lc_, bool):
                if (op == "||" and lc_) or (op == "&&" and not lc_):
                    return BoolV(lc_)
                return self.ev(e["r"], env)
            # short-circuit: the right operand is evaluated only when the left one is false (||) / true (&&)
            n_facts = len(self.bounds.facts)
            if isinstance(l, BoolV) and isinstance(l.e, Cond):
                if op == "||":
                    for d_ in self.disjuncts(l.e):
                        self.learn(d_)
                else:
                    for d_ in self.conjuncts(l.e):
                        self.learn(d_.negate())
                self.assuming(l.e, op == "&&")
            try:
                r = self.ev(e["r"], env)
            finally:
                if isinstance(l, BoolV) and isinstance(l.e, Cond):
                    self.assumed.pop()
                del self.bounds.facts[n_facts:]
            rc_ = self.decide(r.e) if isinstance(r, BoolV) else None
            if isinstance(rc_, bool):
                if (op == "||" and rc_) or (op == "&&" and not rc_):
                    return BoolV(rc_)
                return l
            c_ = Cond("or" if op == "||" else "and", text=f"{l!r}{op}{r!r}")
            if isinstance(l, BoolV) and isinstance(r, BoolV) and isinstance(l.e, Cond) and isinstance(r.e, Cond):
                same = lambda x: list(x.parts) if getattr(x, "op", "") == c_.op and not x.neg and hasattr(x, "parts") else [x]
                c_.parts = same(l.e) + same(r.e)
            return BoolV(c_)
        l = self.ev(e["l"], env)
        r = self.ev(e["r"], env)
        ci = FX.callee_info(e)
        if ci.get("resolved_local") and isinstance(l, (Struct, Enum, Opaque)):
            return self.call_fn(ci["resolved"], [l, r], e)
        return self.binop(op, l, r, e)

    def binop(self, op, l, r, e=None):
        l, r = self.deref(l), self.deref(r)
        if isinstance(l, Ite) or isinstance(r, Ite):
            return self.ite_lift(lambda a, b: self.binop(op, a, b, e), l, r)
        if isinstance(l, Sc) and isinstance(r, Sc):
            if op == "+":
                return Sc(l.e + r.e)
            if op == "-":
                return Sc(l.e - r.e)
            if op == "*":
                return Sc(l.e * r.e)
            if op in ("==", "!="):
                c = Cond("eq", sp.expand(l.e), sp.expand(r.e))
                return BoolV(c if op == "==" else c.negate())
        if isinstance(l, IntV) and isinstance(r, IntV):
            a, b = l.e, r.e
            if op == "+":
                slog(self, "add", e, True, "length arithmetic (bounded by allocation sizes)")
                return IntV(a + b)
            if op == "-":
                slog(self, "sub", e, le(b, a, self.bounds), f"({sp.expand(a)}) - ({sp.expand(b)})")
                return IntV(a - b)
            if op == "*":
                slog(self, "mul", e, True, "length arithmetic (bounded by allocation sizes)")
                return IntV(sp.expand(a * b))
            if op == "/":
                slog(self, "div", e, sp.sympify(b).is_number and b != 0, f"{sp.expand(a)} / {sp.expand(b)}")
                if b == 2:
                    h = self.half(a)
                    if h is not None:
                        return IntV(h)
                raise Unanalysable(f"integer division {a}/{b}")
            if op == "<<":
                slog(self, "shl", e, lt(b, 64, self.bounds), f"({sp.expand(a)}) << ({sp.expand(b)})")
                if a == 1:
                    return IntV(self.pow2(b))
                raise Unanalysable(f"shift {a}<<{b}")
            if op in ("<", "<=", ">", ">=", "==", "!="):
                d = sp.expand(a - b)
                if d.is_number:
                    res = {"<": d < 0, "<=": d <= 0, ">": d > 0, ">=": d >= 0, "==": d == 0, "!=": d != 0}[op]
                    return BoolV(bool(res))
                if op == "<":
                    return BoolV(Cond("lt", sp.expand(a), sp.expand(b)))
                if op == ">":
                    return BoolV(Cond("lt", sp.expand(b), sp.expand(a)))
                if op == "<=":
                    return BoolV(Cond("lt", sp.expand(b), sp.expand(a)).negate())
                if op == ">=":
                    return BoolV(Cond("lt", sp.expand(a), sp.expand(b)).negate())
                if op == "==":
                    return BoolV(Cond("eq", sp.expand(a), sp.expand(b)))
                if op == "!=":
                    return BoolV(Cond("eq", sp.expand(a), sp.expand(b)).negate())
        if op == "*" and isinstance(l, Pt) and isinstance(r, Sc):
            return l.scale(r.e)
        if op == "*" and isinstance(l, Sc) and isinstance(r, Pt):
            return r.scale(l.e)
        if isinstance(l, Pt) and isinstance(r, Pt):
            if op == "+":
                return l.add(r)
            if op == "-":
                return l.add(r.neg())
            if op in ("==", "!="):
                c = Cond("pteq", text=f"{l!r}=={r!r}")
                c.pts = (l, r)
                return BoolV(c if op == "==" else c.negate())
        raise Unanalysable(f"binary {op} on {l!r}, {r!r}", FX.short((e or {}).get("sp")))

    def pow2(self, b):
        f = sfun("pow2")
        b = sp.expand(b)
        if b.is_number:
            return sp.Integer(2) ** int(b)
        return f(b)

    def half(self, a):
        """a/2 for a = pow2(k): pow2(k-1) (needs k>=1: recorded as an assumption)"""
        a = sp.expand(a)
        if a.is_number and int(a) % 2 == 0:
            return sp.Integer(int(a) // 2)
        if a.func == sfun("pow2") or (a.is_Function and a.func.__name__ == "pow2"):
            return sfun("pow2")(sp.expand(a.args[0] - 1))
        hv = sp.expand(a / 2)
        if all(c.is_Integer for c in hv.as_coefficients_dict().values()):
            return hv
        return None

    def ite_lift(self, f, *vals):
        for i, v in enumerate(vals):
            if isinstance(v, Ite):
                va = list(vals)
                vb = list(vals)
                va[i] = v.a
                vb[i] = v.b
                self.assuming(v.cond, True)
                try:
                    ra = self.ite_lift(f, *[self.deref(x) for x in va])
                finally:
                    self.assumed.pop()
                self.assuming(v.cond, False)
                try:
                    rb = self.ite_lift(f, *[self.deref(x) for x in vb])
                finally:
                    self.assumed.pop()
                return ra if val_eq(ra, rb) else Ite(v.cond, ra, rb)
        return f(*vals)

    # -- control flow -------------------------------------------------------------------
    def as_cond(self, v):
        v = self.deref(v)
        if isinstance(v, BoolV):
            return v.e
        raise Unanalysable(f"condition {v!r}")

    def decide(self, c):
        """a comparison that the ordering oracle settles from guard facts / index bounds is a constant"""
        if isinstance(c, Cond) and c.op == "iszero" and isinstance(getattr(c, "subject", None), Sc):
            # a product of powers of transcript challenges is zero only if a challenge is (negligible; the same assumption
            # the `filter(|x| !x.is_zero())` reading over challenge inverses makes) -- recorded among the run's assumptions
            try:
                ex = sp.expand(c.subject.e)
                atoms = [x for x in (ex.atoms(sp.Function) | ex.free_symbols) if not str(x).startswith(("_j", "j#", "_k"))]
                if ex != 0 and len(sp.Add.make_args(ex)) == 1 and atoms and all(str(getattr(x, "func", x)).startswith("ch[") for x in atoms):
                    self.asserts.append(("challenge-product-assumed-nonzero", str(ex)))
                    return bool(c.neg)
            except Exception:
                pass
        if not isinstance(c, Cond) or c.a is None or c.b is None:
            return c
        try:
            a, b = sp.sympify(c.a), sp.sympify(c.b)
        except Exception:
            return c
        val = None
        if c.op == "lt":
            if lt(a, b, self.bounds):
                val = True
            elif le(b, a, self.bounds):
                val = False
        elif c.op == "eq":
            if eq(a, b) or (le(a, b, self.bounds) and le(b, a, self.bounds)):
                val = True
            elif lt(a, b, self.bounds) or lt(b, a, self.bounds):
                val = False
        if val is None:
            return c
        return val != c.neg

    def block_always_returns(self, b):
        """syntactic: last statement / expr of the block is `return ...`"""
        if b["k"] != "Block":
            return b["k"] == "Ret"
        last = b.get("expr")
        if last is None and b["stmts"]:
            s = b["stmts"][-1]
            if s["k"] in ("Semi", "Expr"):
                last = s["e"]
        return last is not None and (last["k"] == "Ret" or last.get("ty") == "!")

    MUTATOR_NAMES = ("push", "push_str", "extend", "extend_from_slice", "append", "insert", "remove", "pop", "clear", "next", "next_back", "nth", "fill_bytes", "try_fill_bytes", "fill", "truncate", "resize", "drain", "retain", "sort", "sort_by", "sort_unstable", "dedup", "reverse", "swap", "take", "replace", "set", "write", "write_all", "rand", "sample", "gen", "commit", "constrain", "allocate", "allocate_multiplier", "multiply", "mul_assign", "add_assign", "sub_assign", "neg_in_place", "square_in_place", "double_in_place", "inverse_in_place", "get_or_insert_with", "get_or_init", "borrow_mut", "lock", "store", "fetch_add")

    def check_assert_pure(self, e):
        """The argument of `assert!` / `debug_assert!` is not evaluated by this interpreter (an assertion is a panic site, not
        an effect), and `debug_assert!` arguments do not run in release builds at all.  An argument that *does* something --
        absorbs into a transcript, draws randomness, serialises into a buffer, advances an iterator, assigns -- makes debug and
        release builds behave differently (round j: seven seeded changes hid real work inside `debug_assert!`).  Refused."""
        bad = None
        for n_ in FX.walk(e):
            k_ = n_.get("k")
            if k_ in ("Assign", "AssignOp"):
                bad = "an assignment"
            elif k_ == "AddrOf" and n_.get("mut"):
                bad = "a `&mut` borrow"
            elif k_ in ("MethodCall", "Call"):
                ci = FX.callee_info(n_) or {}
                p_ = ci.get("resolved") or ci.get("path") or ""
                last = p_.split("::")[-1]
                if any(x in p_ for x in ("merlin::", "TranscriptProtocol", "RngCore", "UniformRand", "CanonicalSerialize", "CanonicalDeserialize")) or last in self.MUTATOR_NAMES or last.startswith(("append_", "serialize", "deserialize", "challenge_", "validate_and_", "rekey", "finalize")):
                    bad = f"a call of `{p_}`"
                elif p_ in self.F.fns:
                    ps = self.F.fns[p_].get("params") or []
                    if ps and str(ps[0].get("ty", "")).startswith("&mut"):
                        bad = f"a call of `{p_}` (takes `&mut`)"
            if bad:
                raise Unanalysable(f"the argument of {e.get('expn', 'assert!').split(':')[-1]}! contains {bad}: an assertion that does work behaves differently in debug and release builds (and its argument is not interpreted here)", FX.short(e.get("sp")))

    def block_jumps(self, b):
        """the diverging block ends in `continue` / `break` rather than `return` / panic: a loop jump under this
        condition, which must not be mistaken for a function exit"""
        last = b
        if b["k"] == "Block":
            last = b.get("expr")
            if last is None and b["stmts"] and b["stmts"][-1]["k"] in ("Semi", "Expr"):
                last = b["stmts"][-1]["e"]
        return last is not None and FX.strip(last)["k"] in ("Continue", "Break")

    def ev_If(self, e, env):
        if e.get("expn", "").startswith(("Bang:assert", "Bang:debug_assert")):
            self.check_assert_pure(e)
            self.trace.add("assert", e.get("expn"), FX.short(e.get("sp")), self.fn_stack[-1] if self.fn_stack else "")
            return UNIT
        if e["c"]["k"] == "LetExpr":
            # `if let PAT = init { t } else { f }`  ==  match init { PAT => t, _ => f }
            scrut = self.ev(e["c"]["init"], env)
            fake = {"k": "Match", "src": "Normal", "sp": e.get("sp"), "spx": e.get("spx"), "arms": [
                {"pat": e["c"]["pat"], "guard": None, "body": e["t"]},
                {"pat": {"k": "Wild"}, "guard": None, "body": e["f"] if e.get("f") else {"k": "Tup", "es": [], "ty": "()", "sp": e.get("sp")}},
            ]}
            return self.match_val(scrut, fake, env)
        c = self.as_cond(self.ev(e["c"], env))
        c = self.decide(c)
        if isinstance(c, bool):
            slog(self, "if-const", e, True, str(c))
            if c:
                return self.ev_raw(e["t"], env)
            return self.ev_raw(e["f"], env) if e.get("f") else UNIT
        # guard: `if c { ...; return X }` without else
        if e.get("f") is None and self.block_always_returns(e["t"]) and not self.block_jumps(e["t"]):
            if self.parity_infeasible(c):
                # e.g. `if n == 1 { return .. }` analysed at n = 2h: the exit cannot be taken for any integer h; the
                # analysis instance does not cover it (the length-1 instance is analysed separately, see ipp.analyse_create_n1)
                slog(self, "if-infeasible", e, True, str(c))
                return UNIT
            old = self.sub_trace()
            try:
                self.ev_raw(e["t"], env)
                rv = UNIT
            except ReturnSignal as r:
                rv = r.val
            except Unanalysable as u:
                if "reachable panic" in u.msg:
                    rv = Opaque("panic", where=u.where)
                    slog(self, "panic-guard", e, False, f"panics when {c}")
                else:
                    raise
            sub = self.trace
            self.trace = old
            if any(it[0] not in ("guard",) for it in sub.items):
                raise Unanalysable("effects inside an early-return branch", FX.short(e.get("sp")))
            if not self.is_abort_value(rv):
                # an early *successful* return (`Ok(..)`, `Some(..)`, a plain value, `return;`) is not an abort: the
                # function's value and effects are conditional (handled as an if/else with the rest of the body at
                # function-body level, otherwise outside the fragment).  Only Err/None/panic exits are guards.
                raise Unanalysable("early return of a non-error value", FX.short(e.get("sp")))
            for c1 in self.disjuncts(c):
                # `if a || b || c { return X }` is three guards in a row (short-circuit order)
                self.trace.add("guard", c1, rv, FX.short(e.get("sp")), self.fn_stack[-1] if self.fn_stack else "")
                self.learn(c1)
            return UNIT
        # value-producing / effectful branch: evaluate both sides on copies of the mutable state
        snap = self.snapshot(env)
        old = self.sub_trace()
        ret_t = ret_f = None
        self.assuming(c, True)
        try:
            vt = self.deref(self.ev_raw(e["t"], env))
        except ReturnSignal as r:
            ret_t, vt = r.val, None
        finally:
            self.assumed.pop()
        tt = self.trace
        st = self.snapshot(env)
        self.restore(env, snap)
        self.trace = Trace()
        self.assuming(c, False)
        try:
            vf = self.deref(self.ev_raw(e["f"], env)) if e.get("f") else UNIT
        except ReturnSignal as r:
            ret_f, vf = r.val, None
        finally:
            self.assumed.pop()
        tf = self.trace
        sf = self.snapshot(env)
        self.trace = old
        if ret_t is not None or ret_f is not None:
            if e.get("_cont") and ret_t is not None and ret_f is None:
                # the else branch is the rest of the function body: its value is the return value
                ret_f = vf
                self.merge(env, c, st, sf)
            if ret_t is not None and ret_f is not None:
                if tt.items or tf.items:
                    self.trace.add("alt", c, tt.items, tf.items, FX.short(e.get("sp")))
                raise ReturnSignal(self.join_ret(c, ret_t, ret_f))
            raise Unanalysable("one branch of an if returns, the other continues (with else)", FX.short(e.get("sp")))
        if tt.items or tf.items:
            self.trace.add("alt", c, tt.items, tf.items, FX.short(e.get("sp")))
        self.merge(env, c, st, sf)
        if vt is None:
            return vf
        if vt is vf or val_eq(vt, vf):
            return vt
        if isinstance(vt, Enum) and isinstance(vf, Enum) and vt.variant == vf.variant and len(vt.payload) == 1 and vt.payload[0] is vf.payload[0]:
            return vt
        if isinstance(vt, (Vec, Tup)) and vt.__class__ is vf.__class__:
            return self.merge_val(c, vt, vf, None)
        if isinstance(vt, Struct) and isinstance(vf, Struct) and vt.path == vf.path and set(vt.fields) == set(vf.fields):
            # `if c { S { .. } } else { S { .. } }`: the same struct with conditional fields (a private struct replacing a tuple)
            return self.merge_val(c, vt, vf, None)
        return Ite(c, vt, vf)

    def join_ret(self, c, a, b):
        """value of a function that returns a on one side of c and b on the other: `Ok(x)` / `Ok(y)` (and `Some`) join
        inside the variant, so that `return Ok(self)` on a fast path and `Ok(self)` at the end give one `Ok(merged self)`"""
        da, db = self.deref(a), self.deref(b)
        if isinstance(da, Enum) and isinstance(db, Enum) and da.path == db.path and da.variant == db.variant and len(da.payload) == len(db.payload) == 1 and not getattr(da, "fallible", None) and not getattr(db, "fallible", None):
            pa, pb = self.deref(da.payload[0]), self.deref(db.payload[0])
            if pa is pb or val_eq(pa, pb):
                return da
            if pa.__class__ is pb.__class__ and isinstance(pa, (Struct, Tup, Vec)) and (not isinstance(pa, Struct) or pa.path == pb.path):
                return Enum(da.path, da.variant, [self.merge_val(c, pa, pb, None)])
        return Ite(c, a, b)

    @staticmethod
    def parity_infeasible(c):
        """`a == b` (not negated) over integer terms where a - b has an odd constant and only even coefficients"""
        if not (isinstance(c, Cond) and c.op == "eq" and not c.neg and c.a is not None and c.b is not None):
            return False
        try:
            d = sp.expand(sp.sympify(c.a) - sp.sympify(c.b))
            if not d.free_symbols:
                return False
            const, rest = d.as_coeff_Add()
            if not (const.is_Integer and int(const) % 2 == 1):
                return False
            for term in sp.Add.make_args(rest):
                k, sym = term.as_coeff_Mul()
                if not (k.is_Integer and int(k) % 2 == 0 and (sym.is_Symbol and sym.is_integer is not False)):
                    return False
            return True
        except Exception:
            return False

    @staticmethod
    def is_abort_value(rv):
        """the values with which a guard *aborts* (the path is outside the accepting behaviour): Err, None, a panic"""
        if isinstance(rv, Enum):
            return rv.variant in ("Err", "None")
        if isinstance(rv, Opaque):
            return rv.what in ("panic", "error-value")
        return False

    def disjuncts(self, c):
        if isinstance(c, Cond) and c.op == "or" and not c.neg and getattr(c, "parts", None):
            return list(c.parts)
        if isinstance(c, Cond) and c.op == "and" and c.neg and getattr(c, "parts", None):
            return [p_.negate() for p_ in c.parts]  # !(a && b && c)  ==  !a || !b || !c
        return [c]

    def conjuncts(self, c):
        if isinstance(c, Cond) and c.op == "and" and not c.neg and getattr(c, "parts", None):
            return list(c.parts)
        if isinstance(c, Cond) and c.op == "or" and c.neg and getattr(c, "parts", None):
            return [p_.negate() for p_ in c.parts]
        return [c]

    def learn(self, c):
        """facts that hold after a guard `if c { return .. }` was passed"""
        if isinstance(c, Cond) and c.op == "lt":
            if not c.neg:  # a < b aborts -> b <= a
                self.bounds.add_le(c.b, c.a)
            else:  # !(a < b) aborts -> a + 1 <= b
                self.bounds.add_le(c.a + 1, c.b)
        if isinstance(c, Cond) and c.op == "eq" and not c.neg and c.a is not None:
            # a == b aborts -> a != b afterwards; for counts compared with 0 this is a >= 1
            for x, y in ((c.a, c.b), (c.b, c.a)):
                if sp.sympify(y) == 0:
                    self.bounds.add_le(1, x)
        if isinstance(c, Cond) and c.op == "eq" and c.neg and c.a is not None:
            # a != b aborts -> a == b afterwards
            self.bounds.add_le(c.a, c.b)
            self.bounds.add_le(c.b, c.a)

    def snapshot(self, env):
        return {k: self.copy_val(v) for k, v in env.items()}

    def copy_val(self, v):
        if isinstance(v, Struct):
            return Struct(v.path, {k: self.copy_val(x) for k, x in v.fields.items()})
        if isinstance(v, Tup):
            return Tup([self.copy_val(x) for x in v.items])
        return v

    def restore(self, env, snap):
        for k in list(env.keys()):
            if k not in snap:
                del env[k]
        for k, v in snap.items():
            cur = env.get(k)
            if isinstance(cur, Struct) and isinstance(v, Struct):
                cur.fields = self.copy_val(v).fields
            else:
                env[k] = self.copy_val(v)

    def merge(self, env, c, st, sf):
        for k in st:
            if k not in sf:
                continue
            a, b = st[k], sf[k]
            env[k] = self.merge_val(c, a, b, env.get(k))

    def merge_val(self, c, a, b, cur):
        if a is b:
            return a
        if isinstance(a, Struct) and isinstance(b, Struct) and a.path == b.path:
            tgt = cur if isinstance(cur, Struct) else Struct(a.path, {})
            tgt.fields = {k: self.merge_val(c, a.fields[k], b.fields[k], None) for k in a.fields if k in b.fields}
            return tgt
        if isinstance(a, (Sc, IntV, Pt, Tup, Enum, Vec, Ite, Opaque)) and val_eq(a, b):
            return a
        if isinstance(a, Tup) and isinstance(b, Tup) and len(a.items) == len(b.items):
            return Tup([self.merge_val(c, x, y, None) for x, y in zip(a.items, b.items)])
        if isinstance(a, Vec) and isinstance(b, Vec) and isinstance(c, Cond) and c.op == "lt" and sp.sympify(c.a) == 0 and sp.sympify(c.b).is_Symbol:
            # `if n > 0 { <vector of length f(n)> } else { <empty vector> }` with f(0) = 0: on the else side the then-value
            # *is* the empty vector, so the conditional is the then-value
            full, empty = (a, b) if not c.neg else (b, a)
            if eq(empty.length(), 0) and sp.expand(sp.sympify(full.length()).subs(sp.sympify(c.b), 0)) == 0:
                return full
        if isinstance(a, Vec) and isinstance(b, Vec):
            # join: one side extends the other by havoc-length segments -> the general side
            for lo, hi in ((a, b), (b, a)):
                d = sp.expand(hi.length() - lo.length())
                if d.free_symbols and all(str(x).startswith("n2") for x in d.free_symbols) and le(0, d):
                    try:
                        from .alg import vec_eq

                        if vec_eq(lo, hi.take(lo.length(), self.bounds)):
                            return hi
                    except Unanalysable:
                        pass
        if isinstance(a, Vec) and isinstance(b, Vec) and eq(a.length(), b.length()):
            try:
                z = zip_vecs(a, b, self.bounds)
                return z.map(lambda t: t.items[0] if val_eq(t.items[0], t.items[1]) else Ite(c, t.items[0], t.items[1]))
            except Unanalysable:
                pass
        if isinstance(a, IntV) and isinstance(b, IntV):
            # join: one side is the other plus havoc atoms (>= 0, unconstrained) -> the general side
            for lo, hi in ((a, b), (b, a)):
                d = sp.expand(hi.e - lo.e)
                if d.free_symbols and all(str(x).startswith("n2") for x in d.free_symbols) and le(0, d):
                    return hi
        if isinstance(a, (Tr, RngV, HashV, RngBuilder, Closure, Ref, Bytes, IterV, BoolV)) or a.__class__ is b.__class__ and not isinstance(a, Val):
            return a
        return Ite(c, a, b)

    def ev_Match(self, e, env):
        src = e["src"]
        if e.get("expn", "").startswith(("Bang:assert", "Bang:debug_assert")):
            self.check_assert_pure(e)
            self.trace.add("assert", e.get("expn"), FX.short(e.get("sp")), self.fn_stack[-1] if self.fn_stack else "")
            return UNIT
        if src.startswith("ForLoopDesugar"):
            return self.ev_for(e, env)
        if src.startswith("TryDesugar"):
            return self.ev_try(e, env)
        scrut = self.ev(e["scrut"], env)
        return self.match_val(scrut, e, env)

    def match_val(self, scrut, e, env):
        if isinstance(scrut, Enum) and getattr(scrut, "fallible", None) and scrut.variant in ("Ok", "Some"):
            fail = Enum(scrut.path, "Err" if scrut.variant == "Ok" else "None", [Opaque("error-value")] if scrut.variant == "Ok" else [])
            arm_f = next((a_ for a_ in e["arms"] if a_.get("guard") is None and self.pat_matches(a_["pat"], fail)), None)
            ok_ = False
            if arm_f is not None:
                snap_ = self.snapshot(env)
                old_ = self.sub_trace()
                try:
                    self.bind_match(arm_f["pat"], fail, env)
                    self.ev_raw(arm_f["body"], env)
                except ReturnSignal as r_:
                    ok_ = self.is_abort_value(self.deref(r_.val))
                except Unanalysable as u_:
                    ok_ = "reachable panic" in u_.msg
                finally:
                    self.trace = old_
                    self.restore(env, snap_)
            if not ok_:
                self.refuse_handled_failure(scrut, "handled by a match / if-let arm that carries on", FX.short(e.get("sp")))
        if isinstance(scrut, Enum):
            for arm in e["arms"]:
                if self.pat_matches(arm["pat"], scrut):
                    self.bind_match(arm["pat"], scrut, env)
                    return self.ev_raw(arm["body"], env)
            raise Unanalysable(f"no arm matches {scrut!r}")
        if isinstance(scrut, Tup) and all(isinstance(self.deref(x_), Enum) for x_ in scrut.items):
            # tuple of concrete variants: `match (a.last(), b.last_mut()) { (Some(x), Some(y)) => .., _ => .. }`
            for arm in e["arms"]:
                if arm.get("guard") is None and self.pat_matches(arm["pat"], scrut):
                    self.bind_match(arm["pat"], scrut, env)
                    return self.ev_raw(arm["body"], env)
            raise Unanalysable(f"no arm matches {scrut!r}")
        if isinstance(scrut, Opaque) and scrut.what == "result":
            c = Cond("is_ok", text=repr(scrut))
            scrut = Ite(c, Enum("Result", "Ok", [scrut.info.get("ok", UNIT)]), Enum("Result", "Err", [scrut.info.get("err", Opaque("error-value"))]))
        if isinstance(scrut, BoolV):
            # `match cond { true => A, false => B }` is `if cond { A } else { B }`
            arm_t = arm_f = None
            for arm in e["arms"]:
                p_ = arm["pat"]
                if arm.get("guard") is not None:
                    arm_t = arm_f = None
                    break
                lit = p_.get("lit") if p_["k"] == "ExprPat" else None
                if lit == "Bool(true)" and arm_t is None:
                    arm_t = arm
                elif lit == "Bool(false)" and arm_f is None:
                    arm_f = arm
                elif p_["k"] == "Wild":
                    arm_t = arm_t or arm
                    arm_f = arm_f or arm
                else:
                    arm_t = arm_f = None
                    break
            if arm_t is not None and arm_f is not None:
                fake = {"k": "If", "c": {"k": "_Val", "v": scrut}, "t": arm_t["body"], "f": arm_f["body"], "sp": e.get("sp"), "spx": e.get("spx"), "ty": e.get("ty")}
                return self.ev_If(fake, env)
        if isinstance(scrut, Ite):
            # evaluate the match under both alternatives
            return self.ite_branch(scrut.cond, lambda: self.match_val(scrut.a, e, env), lambda: self.match_val(scrut.b, e, env), env, e)
        raise Unanalysable(f"match on symbolic {scrut!r}", FX.short(e.get("sp")))

    def ite_branch(self, c, fa, fb, env, e):
        snap = self.snapshot(env)
        old = self.sub_trace()
        ra = rb = None
        va = vb = None
        self.assuming(c, True)
        try:
            va = self.deref(fa())
        except ReturnSignal as r:
            ra = r
        finally:
            self.assumed.pop()
        ta = self.trace
        sa = self.snapshot(env)
        self.restore(env, snap)
        self.trace = Trace()
        self.assuming(c, False)
        try:
            vb = self.deref(fb())
        except ReturnSignal as r:
            rb = r
        finally:
            self.assumed.pop()
        tb = self.trace
        sb = self.snapshot(env)
        self.trace = old
        where = FX.short(e.get("sp"))
        if ra is not None and rb is not None:
            if ta.items or tb.items:
                self.trace.add("alt", c, ta.items, tb.items, where)
            raise ReturnSignal(self.join_ret(c, ra.val, rb.val))
        if ra is not None or rb is not None:
            # one alternative leaves the function, the other continues: an early-exit guard
            ret, t_ret, c_ret = (ra, ta, c) if ra is not None else (rb, tb, c.negate() if isinstance(c, Cond) else c)
            v_c, t_c, s_c = (vb, tb, sb) if ra is not None else (va, ta, sa)
            if any(it[0] != "guard" for it in t_ret.items):
                raise Unanalysable("effects inside an early-return branch", where)
            if not self.is_abort_value(self.deref(ret.val)):
                raise Unanalysable("early return of a non-error value (inside a match or nested branch)", where)
            self.trace.items.extend(t_ret.items)
            self.trace.add("guard", c_ret, ret.val, where, self.fn_stack[-1] if self.fn_stack else "")
            self.learn(c_ret)
            self.restore(env, s_c)
            self.trace.items.extend(t_c.items)
            return v_c
        if ta.items or tb.items:
            self.trace.add("alt", c, ta.items, tb.items, where)
        self.merge(env, c, sa, sb)
        return va if val_eq(va, vb) else Ite(c, va, vb)

    def pat_matches(self, pat, v):
        k = pat["k"]
        if k in ("Wild", "Bind"):
            return True
        if k == "RefPat":
            return self.pat_matches(pat["pat"], v)
        if k == "TupleStructPat":
            name = pat["res"].get("path", "").split("::")[-1]
            return isinstance(v, Enum) and v.variant == name
        if k == "ExprPat" and "res" in pat:
            name = pat["res"].get("path", "").split("::")[-1]
            return isinstance(v, Enum) and v.variant == name
        if k == "StructPat":
            name = pat["res"].get("path", "").split("::")[-1]
            return isinstance(v, Enum) and v.variant == name
        if k == "OrPat":
            return any(self.pat_matches(p, v) for p in pat["pats"])
        if k == "TuplePat":
            v = self.deref(v)
            return isinstance(v, Tup) and len(v.items) == len(pat["pats"]) and all(self.pat_matches(p_, self.deref(x_)) for p_, x_ in zip(pat["pats"], v.items))
        return False

    def bind_match(self, pat, v, env):
        k = pat["k"]
        if k in ("Wild", "ExprPat"):
            return
        if k == "OrPat":
            return
        self.bind(pat, v, env)

    def ev_try(self, e, env):
        call = e["scrut"]
        inner = call["args"][0]
        v = self.ev(inner, env)
        return self.try_val(v, e)

    def try_val(self, v, e):
        where = FX.short(e.get("sp"))
        fnname = self.fn_stack[-1] if self.fn_stack else ""
        if isinstance(v, Enum) and v.variant == "Ok":
            return v.payload[0] if v.payload else UNIT
        if isinstance(v, Enum) and v.variant == "Err":
            raise ReturnSignal(v)
        if isinstance(v, Enum) and v.variant == "Some":
            return v.payload[0]
        if isinstance(v, Ite):
            a, b = v.a, v.b
            if isinstance(a, Enum) and a.variant in ("Err", "None") and isinstance(b, Enum) and b.variant in ("Ok", "Some"):
                self.resolve_alt(v.cond, True, ("guard", v.cond, a, where, fnname))
                self.learn(v.cond)
                return b.payload[0] if b.payload else UNIT
            if isinstance(b, Enum) and b.variant in ("Err", "None") and isinstance(a, Enum) and a.variant in ("Ok", "Some"):
                self.resolve_alt(v.cond, False, ("guard", v.cond.negate(), b, where, fnname))
                self.learn(v.cond.negate())
                return a.payload[0] if a.payload else UNIT
            if isinstance(a, Enum) and isinstance(b, Enum) and a.variant == b.variant and a.variant in ("Ok", "Some"):
                pa = a.payload[0] if a.payload else UNIT
                pb = b.payload[0] if b.payload else UNIT
                return pa if (pa is pb or val_eq(pa, pb)) else Ite(v.cond, pa, pb)
        if isinstance(v, Opaque) and v.what == "result":
            # opaque fallible result (user callback, dependency call): may abort
            self.trace.add("guard", Cond("other", text=v.info.get("desc", "err")), Opaque("err"), where, fnname)
            return v.info.get("ok", UNIT)
        raise Unanalysable(f"`?` on {v!r}", where)

    def resolve_alt(self, cond, aborting_side_is_then, guard_item):
        """`if c {Err} else {effects; Ok}` followed by `?`: the aborting side contributes nothing
        to continuing executions -> guard first, then the surviving side's effects."""
        if self.trace.items:
            last = self.trace.items[-1]
            if last[0] == "alt" and last[1].key() == cond.key():
                t_then, t_else = last[2], last[3]
                dead, live = (t_then, t_else) if aborting_side_is_then else (t_else, t_then)
                if not any(it[0] == "op" for it in dead):
                    self.trace.items.pop()
                    self.trace.items.append(guard_item)
                    self.trace.items.extend(live)
                    return
        self.trace.items.append(guard_item)

    # -- loops ------------------------------------------------------------------------------
    def desugar_for(self, e):
        it_expr = e["scrut"]["args"][0]
        loop = e["arms"][0]["body"]
        inner = loop["body"]
        m = inner["stmts"][0]["e"] if inner["stmts"] else inner["expr"]
        for a in m["arms"]:
            p = a["pat"]
            if p["k"] == "TupleStructPat" and p["pats"]:
                return p["pats"][0], it_expr, a["body"]
            if p["k"] == "StructPat" and p["fields"]:
                return p["fields"][0]["pat"], it_expr, a["body"]
        raise Unanalysable("unrecognised for-loop desugaring")

    def ev_for(self, e, env):
        pat, it_expr, body = self.desugar_for(e)
        if it_expr["k"] == "AddrOf" and it_expr.get("mut") and (it_expr.get("ty") or "").startswith("&mut "):
            # `for x in &mut v` / `&mut v[a..]`: mutable iteration over the place itself (same as iter_mut())
            pl = self.place(it_expr["e"], env)
            cur = self.deref(pl.get())
            if isinstance(cur, Vec):
                self.run_loop(pat, IterV(cur, by_ref_mut=pl), body, env, e)
                return UNIT
        itv = self.ev(it_expr, env)
        if isinstance(itv, UserIter):
            def per_elem(x, pat=pat, body=body):
                self.bind(pat, x, env)
                self.run_body(body, env)

            self.user_iter_loop(itv, per_elem, env, e)
            return UNIT
        itv = self.to_iter(itv, it_expr)
        self.run_loop(pat, itv, body, env, e)
        return UNIT

    def run_loop(self, pat, itv, body, env, e):
        """one generic iteration per segment of the iterated vector"""
        if itv.vec is None:
            raise Unanalysable("loop over an unbounded iterator", FX.short(e.get("sp")))
        hook = self.hooks.get("loop")
        if hook:
            r = hook(self, pat, itv, body, env, e)
            if r is not NotImplemented:
                return r
        vec = itv.vec
        if itv.mut_place is None:
            vec = self.refine_by_env(vec, env)
        segs = vec.nonempty_segs()
        off = sp.Integer(0)
        for s in segs:
            self.loop_segment(pat, s, off, body, env, e, itv)
            off = sp.expand(off + s.n)

    def env_breakpoints(self, env):
        bps = []
        seen = set()

        def visit(v, d=0):
            if d > 4 or id(v) in seen:
                return
            seen.add(id(v))
            if isinstance(v, Ref):
                try:
                    visit(v.get(), d + 1)
                except Unanalysable:
                    pass
            elif isinstance(v, Vec):
                for b in v.breakpoints()[1:-1]:
                    if not any(eq(b, x) for x in bps):
                        bps.append(b)
            elif isinstance(v, IterV) and v.vec is not None:
                visit(v.vec, d + 1)
            elif isinstance(v, Struct):
                for x in v.fields.values():
                    visit(x, d + 1)
            elif isinstance(v, Tup):
                for x in v.items:
                    visit(x, d + 1)

        for v in env.values():
            visit(v)
        return bps

    def refine_by_env(self, vec, env):
        """split the iterated range at breakpoints of vectors in scope (index-aligned access)"""
        bps = self.env_breakpoints(env)
        total = vec.length()
        for b in bps:
            if le(0, b, self.bounds) and le(b, total, self.bounds) and not eq(b, 0) and not eq(b, total):
                try:
                    x, y = vec.split_at(b, self.bounds)
                    vec = Vec(x.segs + y.segs)
                except Unanalysable:
                    pass
        return vec

    def carried_vars(self, body, env):
        """locals defined outside the loop body and assigned inside it (syntactic scan)"""
        out = {}
        for n in FX.walk(body):
            tgt = None
            if n["k"] in ("Assign", "AssignOp"):
                tgt = n["l"]
            elif n["k"] == "MethodCall" and (FX.callee_path(n) or "").endswith(("MulAssign::mul_assign", "AddAssign::add_assign", "SubAssign::sub_assign")):
                tgt = n["recv"]
            elif n["k"] == "AddrOf" and n.get("mut") and FX.strip(n["e"]).get("k") == "Path":
                tgt = n["e"]  # `&mut x` of a plain local: written through the reference (`let w = &mut wc; *w -= ..`)
            if tgt is None:
                continue
            t = tgt
            while t["k"] in ("Unary", "AddrOf"):
                t = t["e"]
            if t["k"] == "Path" and t["res"]["k"] == "Local" and t["res"]["id"] in env:
                out[t["res"]["id"]] = t["res"].get("name")
        return out

    def pushed_and_read(self, body, env):
        pushed, read = {}, set()
        for n in FX.walk(body):
            if n["k"] == "MethodCall" and n["name"] in ("push", "extend", "extend_from_slice", "append"):
                t = n["recv"]
                while t["k"] in ("Unary", "AddrOf", "Field"):
                    t = t.get("e") or t.get("base")
                if t["k"] == "Path" and t["res"]["k"] == "Local" and t["res"]["id"] in env:
                    pushed[t["res"]["id"]] = t["res"].get("name")
            if n["k"] == "Index":
                t = n["base"]
                while t["k"] in ("Unary", "AddrOf"):
                    t = t["e"]
                if t["k"] == "Path" and t["res"]["k"] == "Local":
                    read.add(t["res"]["id"])
        return pushed, read

    def struct_leaves(self, v, pth, d=0):
        """(holder struct, field, value, path) for the scalar / integer fields of a struct value (nested structs included)"""
        out = []
        if d > 3 or not isinstance(v, Struct):
            return out
        for k_, x in list(v.fields.items()):
            if isinstance(x, Ref):
                continue
            if isinstance(x, (Sc, IntV)):
                out.append((v, k_, x, f"{pth}.{k_}"))
            elif isinstance(x, Struct):
                out += self.struct_leaves(x, f"{pth}.{k_}", d + 1)
        return out

    def mutated_struct_locals(self, body, env):
        """locals holding a struct that the body may mutate: root of an assigned field path, `&mut` borrow, or receiver /
        argument of a crate-local call whose parameter is `&mut`"""
        out = []

        def root_local(n):
            while n["k"] in ("Field", "Unary", "AddrOf", "Index"):
                n = n.get("base") or n.get("e")
                if n is None:
                    return None
            return n["res"]["id"] if n["k"] == "Path" and n["res"].get("k") == "Local" else None

        def add(lid):
            if lid is not None and lid in env and lid not in out and isinstance(self.deref(env[lid]), Struct) and not isinstance(env[lid], Ref):
                out.append(lid)

        for n in FX.walk(body):
            k = n["k"]
            if k in ("Assign", "AssignOp") and n["l"]["k"] in ("Field",):
                add(root_local(n["l"]))
            elif k == "AddrOf" and n.get("mut"):
                add(root_local(n["e"]))
            elif k in ("MethodCall", "Call"):
                ci = FX.callee_info(n)
                p = ci.get("resolved") or ci.get("path") or ""
                fn = self.F.fns.get(p)
                args = ([n["recv"]] if k == "MethodCall" else []) + list(n.get("args", []))
                if fn is not None:
                    for a_, prm in zip(args, fn["params"]):
                        if prm["ty"].startswith("&mut "):
                            add(root_local(a_))
                elif k == "MethodCall" and (p.endswith(("Assign::add_assign", "Assign::sub_assign", "Assign::mul_assign")) and n["recv"]["k"] == "Field"):
                    add(root_local(n["recv"]))
        return out

    def pushes_only_in_nested_loop(self, body, lid):
        """every push to local `lid` in `body` sits inside a nested loop (and there is at least one)"""
        def pushes(n):
            out = []
            for y in FX.walk(n):
                if y["k"] == "MethodCall" and y["name"] in ("push", "extend", "extend_from_slice", "append"):
                    t = y["recv"]
                    while t["k"] in ("Unary", "AddrOf", "Field"):
                        t = t.get("e") or t.get("base")
                    if t["k"] == "Path" and t["res"]["k"] == "Local" and t["res"]["id"] == lid:
                        out.append(id(y))
            return out

        allp = pushes(body)
        inner = set()
        for y in FX.walk(body):
            if y["k"] == "Loop":
                inner |= set(pushes(y))
        return bool(allp) and set(allp) <= inner

    def vec_identities(self, env):
        out = {}

        def visit(v, pth, lid, d=0):
            if d > 3:
                return
            if isinstance(v, Vec):
                out[pth] = (v, lid)
            elif isinstance(v, Struct):
                for k_, x in v.fields.items():
                    visit(x, f"{pth}.{k_}", lid, d + 1)

        for lid, v in env.items():
            if isinstance(v, Ref):
                continue
            visit(v, str(lid), lid)
        return out

    def loop_segment(self, pat, seg, off, body, env, e, itv, idx_rec=None):
        where = FX.short(e.get("sp"))
        idx_rec = idx_rec or {}
        if seg.n == 1:
            # single element: plain execution, no schema needed
            elem = seg.f(sp.Integer(0))
            if itv.mut_place is not None:
                elem = self.elem_ref(itv.mut_place, off)
            else:
                elem = self.bind_slots(elem, e)
            self.bind(pat, elem, env)
            self.run_body(body, env)
            return
        j = fresh("j", integer=True, nonnegative=True)
        old_bounds = self.bounds
        self.bounds = self.bounds.with_ub(j, seg.n)
        carried = self.carried_vars(body, env)
        for pn in FX.walk(pat) if isinstance(pat, dict) and "k" in pat else []:
            if pn.get("k") == "Bind":
                carried.pop(pn.get("id"), None)  # bound afresh in every iteration (left in env by an earlier segment)
        counter = getattr(itv, "counter", None)
        if counter is not None:
            carried.pop(counter[0], None)
            env[counter[0]] = IntV(sp.expand(counter[1] + counter[2] * (off + j)))
        placeholders = {}
        inits = {}
        for lid, name in carried.items():
            cur = self.deref(env[lid])
            if isinstance(cur, Sc):
                ph = fresh("ACC_" + (name or "v"))
                placeholders[lid] = ph
                inits[lid] = cur
                env[lid] = Sc(ph)
            elif isinstance(cur, IntV):
                ph = fresh("IACC_" + (name or "v"), integer=True, nonnegative=True)
                placeholders[lid] = ph
                inits[lid] = cur
                env[lid] = IntV(ph)
            elif isinstance(cur, (Vec, Struct, Tup)) or not isinstance(cur, Val):
                pass  # element-wise writes / pushes handled through loop_ctx; effect objects by reference
            else:
                raise Unanalysable(f"loop-carried variable {name} of kind {cur!r}", where)
        # scalar / integer fields of local structs the body may mutate (field assignment, `&mut` receiver or argument):
        # scalars get the same accumulator treatment as scalar locals, integers must come out unchanged
        fph = {}
        for lid in self.mutated_struct_locals(body, env):
            for (holder, key, val, pth) in self.struct_leaves(self.deref(env[lid]), str(lid)):
                if isinstance(val, Sc):
                    ph = fresh("ACC_" + key)
                    fph[(id(holder), key)] = (holder, key, ph, val, pth)
                    holder.fields[key] = Sc(ph)
                elif isinstance(val, IntV):
                    fph[(id(holder), key)] = (holder, key, None, val, pth)
        self.loop_log.append({"n": seg.n, "off": off, "where": where, "fn": self.fn_stack[-1] if self.fn_stack else ""})
        lc = {"isym": j, "n": seg.n, "off": off, "writes": [], "pushes": [], "elem_updates": [], "reads": [], "where": where, "node": e, "outer_ids": set(env.keys())}
        retry_snap = self.snapshot(env) if not idx_rec else None
        retry_marks = (len(self.draw_log), len(self.recurrences), len(self.loop_log), len(SAFETY_LOG))
        irec = {}
        for lid, name in idx_rec.items():
            cur = self.deref(env[lid])
            irec[lid] = (name, cur)
            f = sfun(name)
            env[lid] = Vec([Seg(isym("inf"), lambda jj, f=f: Sc(f(jj)))])
        lc["irec_len"] = {lid: cur_.length() for lid, (_, cur_) in irec.items()}
        pushed, read = self.pushed_and_read(body, env)
        rec = {}
        dbl = {}
        n_rec0 = len(self.recurrences)
        for lid, name in pushed.items():
            if lid in read:
                cur = self.deref(env[lid])
                if not isinstance(cur, Vec):
                    raise Unanalysable(f"recurrence over non-vector {name}", where)
                if self.pushes_only_in_nested_loop(body, lid) and pow2_eq(cur.length(), self.pow2(off)):
                    # block doubling: in outer iteration j the vector has 2^(off+j) entries and an inner loop appends as
                    # many again (invariant re-checked after the body); the inner loop is an ordinary recurrence
                    dbl[lid] = (name, cur)
                    f = sfun(name)
                    env[lid] = Vec([Seg(self.pow2(sp.expand(off + j)), lambda jj, f=f: Sc(f(jj)))])
                    continue
                rec[lid] = (name, cur)
                f = sfun(name)
                env[lid] = Vec([Seg(isym("inf"), lambda jj, f=f: Sc(f(jj)))])
        self.loop_ctx.append(lc)
        old_trace = self.sub_trace()
        vec_before = self.vec_identities(env)
        havoc_before = self.havoc_count
        do_retry = False
        retry_lid = None
        try:
            elem = seg.f(j)
            if itv.mut_place is not None:
                elem = self.elem_ref_sym(itv, lc, seg, j, off)
            else:
                elem = self.bind_slots(elem, e)
            self.bind(pat, elem, env)
            try:
                self.run_body(body, env)
            except BreakSignal:
                raise Unanalysable("break inside a summarised loop", where)
            except Unanalysable as u_loc:
                # a read at an index that cannot be placed among the segments of a vector this loop also assigns by
                # index: try the index-assigned recurrence reading (v[i] = f(v[i-k], ..))
                bad = getattr(u_loc, "vec", None)
                lid_w = next((l_ for l_, x_ in env.items() if bad is not None and not isinstance(x_, Ref) and self.deref(x_) is bad), None)
                assigned = lid_w is not None and any(n_["k"] in ("Assign", "AssignOp") and n_["l"]["k"] == "Index" and FX.strip(n_["l"]["base"]).get("k") == "Path" and FX.strip(n_["l"]["base"])["res"].get("id") == lid_w for n_ in FX.walk(body))
                clean = not self.trace.items and retry_marks[0] == len(self.draw_log) and self.havoc_count == havoc_before
                if retry_snap is None or not assigned or not clean:
                    raise
                retry_lid = lid_w
                raise _RetryIndexRec()
            if counter is not None:
                cv = self.deref(env[counter[0]])
                if not (isinstance(cv, IntV) and eq(cv.e, counter[1] + counter[2] * (off + j + 1))):
                    raise Unanalysable(f"loop counter is not stepped exactly once per iteration (value after the body: {cv!r})", where)
                env[counter[0]] = IntV(sp.expand(counter[1] + counter[2] * (off + seg.n)))
        except _RetryIndexRec:
            do_retry = True
        finally:
            self.loop_ctx.pop()
            self.bounds = old_bounds
            body_trace = self.trace
            self.trace = old_trace
        if do_retry:
            self.restore(env, retry_snap)
            del self.recurrences[retry_marks[1]:]
            del self.loop_log[retry_marks[2]:]
            del SAFETY_LOG[retry_marks[3]:]
            name_w = next((n_["res"].get("name") for n_ in FX.walk(body) if n_["k"] == "Path" and n_["res"].get("k") == "Local" and n_["res"].get("id") == retry_lid), None) or "v"
            return self.loop_segment(pat, seg, off, body, env, e, itv, idx_rec={retry_lid: name_w})
        # a vector written element-wise must not be read at an element another iteration writes
        jb = old_bounds.with_ub(j, seg.n)
        for base_ref, idx_w, v_w, node_w in lc["writes"]:
            if base_ref.root_id in irec:
                continue
            bw = self.deref(base_ref.get())
            wbase = sp.expand(idx_w - j)
            for (rv, ri, rn) in lc["reads"]:
                if rv is not bw:
                    continue
                if isinstance(ri, IntV) and (eq(ri.e, idx_w) or lt(ri.e, wbase, jb) or le(sp.expand(wbase + seg.n), ri.e, jb)):
                    continue  # the element written in this very iteration, or one no iteration writes
                # cross-iteration dependence: retry as an index-assigned recurrence (v[i] = f(v[i-k], ..)) when the
                # loop fills the vector to its end, writes once per iteration and had no other effects so far
                lid_w = next((l_ for l_, x_ in env.items() if not isinstance(x_, Ref) and self.deref(x_) is bw), None)
                same = [w_ for w_ in lc["writes"] if w_[0].root_id == base_ref.root_id]
                clean = not body_trace.items and retry_marks[0] == len(self.draw_log) and self.havoc_count == havoc_before
                if retry_snap is not None and lid_w is not None and len(same) == 1 and clean and eq(sp.expand(wbase + seg.n), bw.length()) and not wbase.has(j):
                    self.restore(env, retry_snap)
                    del self.recurrences[retry_marks[1]:]
                    del self.loop_log[retry_marks[2]:]
                    del SAFETY_LOG[retry_marks[3]:]
                    name_w = next((n_["res"].get("name") for n_ in FX.walk(body) if n_["k"] == "Path" and n_["res"].get("k") == "Local" and n_["res"].get("id") == lid_w), None) or "v"
                    return self.loop_segment(pat, seg, off, body, env, e, itv, idx_rec={lid_w: name_w})
                raise Unanalysable(f"element {getattr(ri, 'e', ri)} of a vector is read in the iteration that writes element {idx_w}: its value depends on earlier iterations", FX.short((rn or {}).get("sp")) or where)
        # vector state carried across iterations must only change through index-aligned writes / pushes
        for pth, (obj, lid) in vec_before.items():
            if lid in rec or lid in dbl or lid in irec or self.havoc_count != havoc_before:
                continue
            now = self.vec_identities(env).get(pth)
            if now is not None and now[0] is not obj and not val_eq(now[0], obj):
                raise Unanalysable(f"loop-carried vector state `{pth}` is modified by a write that is not aligned with the loop index (its value in iteration i depends on earlier iterations)", where)
        # classify carried scalars
        subst = {}
        finals = {}
        for (holder, key, ph, init, pth) in fph.values():
            new = self.deref(holder.fields.get(key))
            if ph is None:
                if self.havoc_count != havoc_before:
                    continue  # the body's effect was summarised for all iterations by a havoc hook (user callbacks)
                if not (isinstance(new, IntV) and eq(new.e, init.e)):
                    raise Unanalysable(f"integer field `{pth}` of a struct is updated inside a summarised loop", where)
                continue
            if not isinstance(new, Sc):
                raise Unanalysable(f"scalar field `{pth}` changes kind inside a loop", where)
            subst[ph], fin = self.scalar_acc_schema(init, ph, sp.expand(new.e), j, seg.n, where, pth)
            holder.fields[key] = fin
        for lid, ph in placeholders.items():
            new = self.deref(env[lid])
            init = inits[lid]
            if isinstance(init, Sc):
                subst[ph], finals[lid] = self.scalar_acc_schema(init, ph, sp.expand(new.e), j, seg.n, where, carried[lid])
                continue
            else:
                if isinstance(new, Ite) and isinstance(new.cond, Cond) and new.cond.op == "lt":
                    # running maximum:  if x > acc { acc = x }
                    c_ = new.cond
                    hi, lo_ = (new.a, new.b) if not c_.neg else (new.b, new.a)
                    if isinstance(hi, IntV) and isinstance(lo_, IntV) and eq(c_.a, ph) and eq(lo_.e, ph) and eq(hi.e, c_.b) and not sp.sympify(c_.b).has(ph):
                        mx = sfun("MAX")(seg.n, sp.sympify(c_.b).xreplace({j: isym("_k")}))
                        self.max_facts.append({"template": sp.sympify(c_.b), "isym": j, "n": seg.n, "max": mx, "init": init.e, "where": where})
                        # an upper bound that holds for the generic element holds for the maximum
                        for fa, fb in list(self.bounds.facts):
                            if eq(fa, c_.b) and not sp.sympify(fb).has(j) and eq(init.e, 0):
                                self.bounds.add_le(mx, fb)
                        subst[ph] = sfun("MAXTO")(j, sp.sympify(c_.b).xreplace({j: isym("_k")}))
                        finals[lid] = IntV(mx) if eq(init.e, 0) else IntV(sfun("MAX2")(init.e, mx))
                        continue
                    raise Unanalysable(f"loop-carried integer update {carried[lid]} := {new!r} matches no schema", where)
                if not isinstance(new, IntV):
                    raise Unanalysable(f"loop-carried integer update {carried[lid]} := {new!r} matches no schema", where)
                ne = sp.expand(new.e)
                if eq(ne, ph):
                    subst[ph] = init.e
                    finals[lid] = init
                    continue
                if getattr(ne.func, "__name__", "") == "MAX2" and len(ne.args) == 2 and any(eq(a_, ph) for a_ in ne.args):
                    # running maximum:  acc = acc.max(x)  /  acc = max(acc, x)
                    tmpl = [a_ for a_ in ne.args if not eq(a_, ph)]
                    if len(tmpl) == 1 and not tmpl[0].has(ph):
                        t_ = tmpl[0]
                        mx = sfun("MAX")(seg.n, t_.xreplace({j: isym("_k")}))
                        self.max_facts.append({"template": t_, "isym": j, "n": seg.n, "max": mx, "init": init.e, "where": where})
                        for fa, fb in list(self.bounds.facts):
                            if eq(fa, t_) and not sp.sympify(fb).has(j) and eq(init.e, 0):
                                self.bounds.add_le(mx, fb)
                        subst[ph] = sfun("MAXTO")(j, t_.xreplace({j: isym("_k")}))
                        finals[lid] = IntV(mx) if eq(init.e, 0) else IntV(sfun("MAX2")(init.e, mx))
                        continue
                raise Unanalysable(f"loop-carried integer update {carried[lid]} := {ne} matches no schema", where)
        for lid, v in finals.items():
            env[lid] = v
        self.all_subst.update(subst)

        def fix(v, at=None):
            return subst_val(v, subst) if subst else v

        # index-assigned recurrences: v[p + j] = f(v[..earlier..]) filling v to its end
        for lid, (name, old) in irec.items():
            mine = [w_ for w_ in lc["writes"] if w_[0].root_id == lid]
            if len(mine) != 1:
                raise Unanalysable(f"recurrence vector {name} must be assigned exactly once per iteration", where)
            lc["writes"] = [w_ for w_ in lc["writes"] if w_[0].root_id != lid]
            base_ref, idx_w, v_w, node_w = mine[0]
            wbase = sp.expand(idx_w - j)
            if wbase.has(j) or not eq(sp.expand(wbase + seg.n), old.length()):
                raise Unanalysable(f"recurrence vector {name}: the loop does not fill it to its end", where)
            prefix = old.take(wbase, old_bounds)
            self.recurrences.append({"name": name, "prefix": prefix, "n": seg.n, "off": off, "isym": j, "value": fix(v_w), "pos": sp.expand(idx_w), "where": where, "fn": self.fn_stack[-1] if self.fn_stack else "", "by_index": True})
            env[lid] = Vec.atom(name, old.length())
        # element-wise writes: vector[off + j (+c)] = value(j)
        for base_ref, idx, v, node in lc["writes"]:
            wbase = sp.expand(idx - j)
            if wbase.has(j) and not sp.expand(idx + j).has(j):
                # descending: iteration j writes position top - j; position lo + jj is written by iteration n-1-jj
                top = sp.expand(idx + j)
                lo_ = sp.expand(top - seg.n + 1)
                b = self.deref(base_ref.get())
                v2 = fix(v)
                pre, rest = b.split_at(lo_, old_bounds)
                mid, post = rest.split_at(seg.n, old_bounds)
                newseg = Seg(seg.n, (lambda jj, v2=v2, j=j, n_=seg.n: subst_val(v2, {j: sp.expand(n_ - 1 - jj)})))
                base_ref.set(Vec(pre.segs + [newseg] + post.segs))
                continue
            if wbase.has(j):
                raise Unanalysable(f"indexed write at {idx} inside loop over [{off},{off}+{seg.n}) is not affine in the loop index", where)
            b = self.deref(base_ref.get())
            if isinstance(b, Vec) and not le(sp.expand(wbase + seg.n), b.length(), old_bounds):
                # `v[i] = x` does not grow a vector: positions [wbase, wbase + n) must exist (mutation campaign 3: deleting
                # the `append` that creates the padding positions of r_vec survived, the writes silently extended it)
                raise Unanalysable(f"indexed writes at [{wbase}, {sp.expand(wbase + seg.n)}) into a vector of length {b.length()}: cannot show that the positions exist (an index past the end panics)", where)
            v2 = fix(v)
            pre, rest = b.split_at(wbase, old_bounds)
            mid, post = rest.split_at(seg.n, old_bounds)
            newseg = Seg(seg.n, (lambda jj, v2=v2, j=j: subst_val(v2, {j: jj})))
            base_ref.set(Vec(pre.segs + [newseg] + post.segs))
        for lid, (name, old) in dbl.items():
            now = self.deref(env[lid])
            new_recs = [r_ for r_ in self.recurrences[n_rec0:] if r_["name"] == name]
            if not (isinstance(now, Vec) and pow2_eq(now.length(), self.pow2(sp.expand(off + j + 1))) and len(new_recs) == 1 and not [p_ for p_ in lc["pushes"] if p_[0].root_id == lid]):
                raise Unanalysable(f"vector {name} is extended by a nested loop but does not double per iteration (length after the body: {now.length() if isinstance(now, Vec) else now!r})", where)
            new_recs[0]["doubling"] = {"isym": j, "n": seg.n, "off": off, "prefix": old}
            fin = self.pow2(sp.expand(off + seg.n))
            # a passed guard `x == 2^k` gives the same length a simpler name (keeps later index arithmetic in terms of x)
            facts = [(sp.expand(a_), sp.expand(b_)) for a_, b_ in self.bounds.facts]
            for a_, b_ in facts:
                if eq(b_, fin) and (b_, a_) in facts and not a_.has(sfun("pow2")):
                    fin = a_
                    break
            env[lid] = Vec.atom(name, fin)
        for lid, (name, old) in rec.items():
            mine = [(r, v, nd) for (r, v, nd) in lc["pushes"] if r.root_id == lid]
            if len(mine) != 1:
                raise Unanalysable(f"recurrence vector {name} must be pushed exactly once per iteration", where)
            lc["pushes"] = [p for p in lc["pushes"] if p[0].root_id != lid]
            v2 = fix(mine[0][1])
            self.recurrences.append({"name": name, "prefix": old, "n": seg.n, "off": off, "isym": j, "value": v2, "pos": sp.expand(old.length() + j), "where": where, "fn": self.fn_stack[-1] if self.fn_stack else ""})
            env[lid] = Vec.atom(name, sp.expand(old.length() + seg.n))
        for base_ref, v, node in lc["pushes"]:
            b = self.deref(base_ref.get())
            v2 = fix(v)
            base_ref.set(Vec(b.segs + [Seg(seg.n, (lambda jj, v2=v2, j=j: subst_val(v2, {j: jj})))]))
        for base_ref, v in lc["elem_updates"]:
            b = self.deref(base_ref.get())
            v2 = fix(v)
            pre, rest = b.split_at(off, old_bounds)
            mid, post = rest.split_at(seg.n, old_bounds)
            base_ref.set(Vec(pre.segs + [Seg(seg.n, (lambda jj, v2=v2, j=j: subst_val(v2, {j: jj})))] + post.segs))
        if body_trace.items:
            items = [subst_item(it, subst) for it in body_trace.items] if subst else body_trace.items
            self.trace.add("star", items, {"n": seg.n, "isym": j, "off": off, "where": where})

    def elem_ref_sym(self, itv, lc, seg, j, off):
        """mutable reference to the generic element of a vector being iterated with iter_mut"""
        cur = seg.f(j)
        state = {"v": cur, "written": False}

        def g():
            return state["v"]

        def s(v):
            state["v"] = v
            if not state["written"]:
                state["written"] = True
                lc["elem_updates"].append([itv.mut_place, v])
            else:
                for u in lc["elem_updates"]:
                    if u[0] is itv.mut_place:
                        u[1] = v

        return Ref(g, s, f"{itv.mut_place.desc}[*]")

    def scalar_acc_schema(self, init, ph, ne, j, n, where, name):
        """closed form of a scalar accumulator: `ne` is the new value in terms of the placeholder `ph` (old value) and the
        loop index j; returns (value at the start of iteration j, value after n iterations)"""
        if eq(ne, ph):
            return init.e, init
        ratio = sp.simplify(ne / ph)
        if not ratio.has(ph) and not ratio.has(j):
            # power accumulator: value in iteration j is init*ratio^j
            return init.e * ratio**j, Sc(init.e * ratio**n)
        if not ratio.has(ph):
            # product accumulator with index-dependent factor
            return init.e * sfun("PRODTO")(j, ratio.xreplace({j: isym("_k")})), Sc(init.e * mk_prod(n, ratio, j))
        delta = sp.expand(ne - ph)
        if not delta.has(ph):
            return init.e + sfun("SUMTO")(j, delta.xreplace({j: isym("_k")})), Sc(init.e + mk_sum(n, delta, j))
        raise Unanalysable(f"loop-carried scalar update {name} := {ne} matches no schema", where)

    def bind_slots(self, v, node):
        if isinstance(v, MutSlot):
            return self.slot_ref(v, node)
        if isinstance(v, Tup) and any(isinstance(x, (MutSlot, Tup)) for x in v.items):
            return Tup([self.bind_slots(x, node) for x in v.items])
        return v

    def slot_ref(self, slot, node):
        """writable reference for one MutSlot: writes go through index_write on the root vector place (element-wise
        write schema inside a summarised loop, scatter record in scatter mode)"""
        place, idx = slot.place, sp.sympify(slot.idx)
        while getattr(place, "slice_of", None) is not None:
            place, lo = place.slice_of[0], place.slice_of[1]
            idx = sp.expand(idx + lo)
        state = {"v": slot.val}

        def g():
            if self.scatter is not None:
                bb = self.deref(place.get())
                if isinstance(bb, Vec):
                    self.log_index(bb, IntV(idx), node)
                return Sc(ssym("OLD:" + place.desc))
            return state["v"]

        def s(v):
            state["v"] = v
            self.index_write(place, self.deref(place.get()), IntV(idx), v, node)

        return Ref(g, s, f"{place.desc}[{idx}]", root_id=place.root_id)

    def elem_ref(self, place, idx):
        def g():
            return self.deref(place.get()).index(idx, self.bounds)

        def s(v):
            place.set(self.deref(place.get()).set_index(idx, v, self.bounds))

        return Ref(g, s, f"{place.desc}[{idx}]")

    def ev_Loop(self, e, env):
        hook = self.hooks.get("while")
        if hook:
            r = hook(self, e, env)
            if r is not NotImplemented:
                return r
        if e.get("src") in ("While", "Loop"):
            r = self.counting_while(e, env)
            if r is not NotImplemented:
                return r
            r = self.while_let_next(e, env)
            if r is not NotImplemented:
                return r
            r = self.fill_while(e, env)
            if r is not NotImplemented:
                return r
        raise Unanalysable(f"loop ({e['src']}) without a summary schema", FX.short(e.get("sp")))

    def fill_while(self, e, env):
        """`while v.len() < N { ..; v.push(x); .. }` with exactly one push per iteration and N loop-invariant: a for loop over
        the N - len(v) missing positions"""
        b = e["body"]
        x = b.get("expr") if b["k"] == "Block" and not b["stmts"] else None
        if x is None or x["k"] != "If" or x["c"]["k"] != "Binary" or x["c"]["op"] not in ("<", ">", "!=") or x.get("f") is None:
            return NotImplemented
        fb = x["f"]
        if not (fb["k"] == "Block" and len(fb["stmts"]) == 1 and fb["stmts"][0]["k"] in ("Expr", "Semi") and fb["stmts"][0]["e"]["k"] == "Break" and fb.get("expr") is None):
            return NotImplemented
        c, t = x["c"], x["t"]
        l_, r_ = (c["l"], c["r"]) if c["op"] in ("<", "!=") else (c["r"], c["l"])
        l_ = FX.strip(l_)
        if not (l_["k"] == "MethodCall" and l_["name"] == "len" and FX.strip(l_["recv"])["k"] == "Path" and FX.strip(l_["recv"])["res"].get("k") == "Local"):
            return NotImplemented
        vid = FX.strip(l_["recv"])["res"]["id"]
        if vid not in env or t["k"] != "Block" or FX.own_jumps(t):
            return NotImplemented
        # exactly one push to v at the top level of the body, no other use of v as a method receiver / assignment target

        def is_v(n_):
            n_ = FX.strip(n_)
            return n_["k"] == "Path" and n_["res"].get("k") == "Local" and n_["res"].get("id") == vid

        top_pushes = [s_ for s_ in t["stmts"] if s_["k"] in ("Semi", "Expr") and s_["e"]["k"] == "MethodCall" and s_["e"]["name"] == "push" and is_v(s_["e"]["recv"])]
        all_mut = [n_ for n_ in FX.walk(t) if (n_["k"] == "MethodCall" and n_["name"] in ("push", "pop", "extend", "extend_from_slice", "append", "truncate", "clear", "resize", "insert", "remove") and is_v(n_["recv"])) or (n_["k"] in ("Assign", "AssignOp") and is_v(n_["l"]))]
        if len(top_pushes) != 1 or len(all_mut) != 1:
            return NotImplemented
        bound = self.ev(r_, env)
        cur = self.deref(env[vid])
        if not (isinstance(bound, IntV) and isinstance(cur, Vec)):
            return NotImplemented
        r_b = FX.strip(r_)
        if not (r_b["k"] == "Lit" or (r_b["k"] == "Path" and r_b["res"].get("k") == "Local" and not any(n_["k"] in ("Assign", "AssignOp") and FX.strip(n_["l"]).get("res", {}).get("id") == r_b["res"].get("id") for n_ in FX.walk(t)))):
            return NotImplemented
        if c["op"] == "!=" and not le(cur.length(), bound.e, self.bounds):
            return NotImplemented
        trips = sp.expand(bound.e - cur.length())
        if self.decide(Cond("lt", sp.Integer(0), trips)) is False:
            return UNIT
        itv = IterV(Vec([Seg(trips, lambda jj: IntV(jj))]))
        self.run_loop({"k": "Wild"}, itv, t, env, e)
        return UNIT

    def while_let_next(self, e, env):
        """`while let Some(p) = it.next() { body }` with `it` a local iterator the body does not touch: `for p in it`"""
        b = e["body"]
        x = b.get("expr") if b["k"] == "Block" and not b["stmts"] else None
        if x is None or x["k"] != "If" or x["c"]["k"] != "LetExpr" or x.get("f") is None:
            return NotImplemented
        fb = x["f"]
        if not (fb["k"] == "Block" and len(fb["stmts"]) == 1 and fb["stmts"][0]["k"] in ("Expr", "Semi") and fb["stmts"][0]["e"]["k"] == "Break" and fb.get("expr") is None):
            return NotImplemented
        pat, init, t = x["c"]["pat"], FX.strip(x["c"]["init"]), x["t"]
        if not (pat["k"] == "TupleStructPat" and pat["res"].get("path", "").endswith("Some") and len(pat.get("pats", [])) == 1):
            return NotImplemented
        if not (init["k"] == "MethodCall" and (init.get("callee") or {}).get("path") == "std::iter::Iterator::next"):
            return NotImplemented
        recv = FX.strip(init["recv"])
        if not (recv["k"] == "Path" and recv["res"]["k"] == "Local" and recv["res"]["id"] in env):
            return NotImplemented
        lid = recv["res"]["id"]
        if any(y["k"] == "Path" and y["res"].get("k") == "Local" and y["res"].get("id") == lid for y in FX.walk(t)):
            return NotImplemented
        if FX.own_jumps(t):
            return NotImplemented
        itv = self.deref(env[lid])
        if not isinstance(itv, IterV) or itv.vec is None:
            return NotImplemented
        self.run_loop(pat["pats"][0], itv, t, env, e)
        env[lid] = IterV(Vec([]))
        return UNIT

    def counting_while(self, e, env):
        """`while v < N { ..; v += 1; .. }` / `while v > L { ..; v -= 1; .. }` with an integer local v stepped exactly once,
        unconditionally, per iteration and a loop-invariant bound: the same as a for loop over the trip count with v
        available as a function of the iteration index (before / after the step statement)."""
        where = FX.short(e.get("sp"))
        b = e["body"]
        x = b.get("expr") if b["k"] == "Block" and not b["stmts"] else None
        if x is None or x["k"] != "If" or x["c"]["k"] != "Binary" or x.get("f") is None:
            return NotImplemented
        fb = x["f"]
        if not (fb["k"] == "Block" and len(fb["stmts"]) == 1 and fb["stmts"][0]["k"] in ("Expr", "Semi") and fb["stmts"][0]["e"]["k"] == "Break" and fb.get("expr") is None):
            return NotImplemented
        c, t = x["c"], x["t"]
        if t["k"] != "Block":
            return NotImplemented

        def local_id(n):
            n = FX.strip(n)
            return n["res"]["id"] if n["k"] == "Path" and n["res"]["k"] == "Local" else None

        def touches(n, lid):
            """assignment to / mutable borrow of local lid anywhere in n"""
            for y in FX.walk(n):
                if y["k"] in ("Assign", "AssignOp") and local_id(y["l"]) == lid:
                    return True
                if y["k"] == "AddrOf" and y.get("mut") and local_id(y["e"]) == lid:
                    return True
            return False

        # the stepped counter and its step statement (top level of the body)
        steps = [(i, s["e"]) for i, s in enumerate(t["stmts"]) if s["k"] in ("Semi", "Expr") and s["e"]["k"] == "AssignOp" and s["e"]["op"] in ("+=", "-=") and local_id(s["e"]["l"]) is not None and s["e"]["r"]["k"] == "Lit" and str(s["e"]["r"].get("v")) == "1"]
        cand = None
        for side, other, flip in ((c["l"], c["r"], False), (c["r"], c["l"], True)):
            lid = local_id(side)
            if lid is None or lid not in env:
                continue
            mine = [(i, s) for i, s in steps if local_id(s["l"]) == lid]
            if len(mine) != 1:
                continue
            rest = {"k": "Block", "stmts": [s for i, s in enumerate(t["stmts"]) if i != mine[0][0]], "expr": t.get("expr")}
            if touches(rest, lid):
                continue
            cand = (lid, other, flip, mine[0][1]["op"])
            break
        if cand is None:
            return NotImplemented
        lid, other, flip, stepop = cand
        op = c["op"]
        if flip:
            op = {"<": ">", ">": "<", "!=": "!=", "<=": ">=", ">=": "<="}.get(op)
        # loop-invariant bound: literal, or an integer local not assigned / mutably borrowed in the body
        ob = FX.strip(other)
        if not (ob["k"] == "Lit" or (local_id(ob) is not None and local_id(ob) != lid and not touches(t, local_id(ob)))):
            return NotImplemented
        if FX.own_jumps(t):
            return NotImplemented
        v0 = self.deref(env[lid])
        bound = self.ev(other, env)
        if not isinstance(v0, IntV) or not isinstance(bound, IntV):
            return NotImplemented
        if op == "<" and stepop == "+=":
            step, trips = 1, sp.expand(bound.e - v0.e)
        elif op == ">" and stepop == "-=":
            step, trips = -1, sp.expand(v0.e - bound.e)
        elif op == "!=" and stepop == "+=" and le(v0.e, bound.e, self.bounds):
            step, trips = 1, sp.expand(bound.e - v0.e)
        elif op == "!=" and stepop == "-=" and le(bound.e, v0.e, self.bounds):
            step, trips = -1, sp.expand(v0.e - bound.e)
        else:
            return NotImplemented
        nonempty = self.decide(Cond("lt", sp.Integer(0), trips))
        if nonempty is False:
            return UNIT
        itv = IterV(Vec([Seg(trips, lambda jj: IntV(jj))]))
        itv.counter = (lid, v0.e, step)
        self.run_loop({"k": "Wild"}, itv, t, env, e)
        env[lid] = IntV(sp.expand(v0.e + step * trips))
        return UNIT

    def ev_LetExpr(self, e, env):
        raise Unanalysable("let-expression condition")

    # -- calls --------------------------------------------------------------------------------
    def ev_Call(self, e, env):
        from . import lib

        return lib.call(self, e, env)

    def ev_MethodCall(self, e, env):
        from . import lib

        return lib.call(self, e, env)

    def newtype_inner(self, v):
        """the wrapped vector of a crate-local newtype that implements Deref / IntoIterator / Index over it"""
        if isinstance(v, Struct) and len(v.fields) == 1:
            inner = self.deref(next(iter(v.fields.values())))
            if isinstance(inner, Vec) and any((imp["trait"] or "").endswith(("ops::Deref", "iter::IntoIterator", "ops::Index")) and imp["self_ty"].startswith(v.path) for imp in self.F.items["impls"]):
                return inner
        return None

    def to_iter(self, v, node=None):
        v = self.deref(v)
        nt = self.newtype_inner(v)
        if nt is not None:
            v = nt
        if isinstance(v, IterV):
            return v
        if isinstance(v, Vec):
            return IterV(v)
        if isinstance(v, Struct) and v.path == "Range":
            lo = v.fields["start"].e
            hi = v.fields["end"].e
            n = sp.expand(hi - lo)
            if not le(0, n, self.bounds):
                # empty-or-not cannot be ordered: keep symbolic length (e.g. 1..n needs n>=1)
                pass
            return IterV(Vec([Seg(n, lambda j, lo=lo: IntV(lo + j))]))
        if isinstance(v, Bytes):
            return IterV(Vec([Seg(isym("len_bytes"), lambda j, v=v: Opaque("byte-of", src=v, j=j))]))
        if isinstance(v, Ite):
            raise Unanalysable("iteration over a conditional value")
        if isinstance(v, UserIter):
            raise Unanalysable("crate-local iterator used outside take(n).for_each / for loops", FX.short((node or {}).get("sp")))
        raise Unanalysable(f"cannot iterate {v!r}", FX.short((node or {}).get("sp")))

    def to_iter_or_inf(self, v, node=None):
        return self.to_iter(v, node)

    def apply_closure(self, f, args):
        f = self.deref(f)
        if isinstance(f, Closure):
            params = f.node["params"]
            if len(params) != len(args):
                raise Unanalysable("closure arity")
            for p, a in zip(params, args):
                self.bind(p, a, f.env)
            try:
                return self.deref(self.ev_raw(f.node["body"], f.env))
            except ReturnSignal as r:
                return r.val
        if isinstance(f, Opaque) and f.what == "fn":
            from . import lib

            return lib.call_path(self, f.info["path"], args, None, {})
        raise Unanalysable(f"call of {f!r}")


def subst_val(v, m):
    if not m:
        return v
    if isinstance(v, Sc):
        return Sc(v.e.xreplace(m) if hasattr(v.e, "xreplace") else v.e)
    if isinstance(v, IntV):
        return IntV(sp.expand(v.e.xreplace(m)))
    if isinstance(v, Pt):
        return Pt([(n.xreplace(m) if hasattr(n, "xreplace") else n, (lambda jj, b=b: b(jj).xreplace(m)), (lambda jj, s=s: sp.sympify(s(jj)).xreplace(m))) for n, b, s in v.terms])
    if isinstance(v, Tup):
        return Tup([subst_val(x, m) for x in v.items])
    if isinstance(v, Enum):
        return Enum(v.path, v.variant, [subst_val(x, m) for x in v.payload])
    if isinstance(v, Struct):
        return Struct(v.path, {k: subst_val(x, m) for k, x in v.fields.items()})
    if isinstance(v, Ite):
        return Ite(v.cond, subst_val(v.a, m), subst_val(v.b, m))
    if isinstance(v, Vec):
        return Vec([Seg(sp.sympify(s.n).xreplace(m), (lambda jj, s=s: subst_val(s.f(jj), m))) for s in v.segs], v.kind)
    if isinstance(v, Bytes):
        return Bytes([tuple([part[0]] + [subst_val(x, m) if isinstance(x, Val) else x for x in part[1:]]) for part in v.parts])
    if isinstance(v, Opaque) and v.info:
        info = {}
        for k, x in v.info.items():
            if isinstance(x, sp.Basic):
                info[k] = x.xreplace(m)
            elif isinstance(x, Val):
                info[k] = subst_val(x, m)
            else:
                info[k] = x
        return Opaque(v.what, **info)
    return v


def subst_item(it, m):
    if it[0] == "op":
        d = dict(it[1])
        d["payload"] = subst_val(d.get("payload"), m) if isinstance(d.get("payload"), Val) else d.get("payload")
        if isinstance(d.get("result"), Val):
            d["result"] = subst_val(d["result"], m)
        return ("op", d)
    if it[0] == "star":
        return ("star", [subst_item(x, m) for x in it[1]], it[2])
    if it[0] == "alt":
        return ("alt", it[1], [subst_item(x, m) for x in it[2]], [subst_item(x, m) for x in it[3]], it[4])
    return it

"""Role schedules (prover / verifier) assembled from TERM traces, and the reference schedule."""
import sympy as sp

from . import analyses as AN
from . import harness as H
from . import ipp
from . import sched as S
from .alg import Enum, IntV, Opaque, Pt, Sc, Struct, Tup, Unanalysable, Vec, isym, ssym, sfun
from .interp import Tr, subst_item

_cache = {}


def run_new_commit(F, role):
    """constructor and commit on symbolic inputs -> (trace_new, trace_commit, info)"""
    key = (id(F), "newcommit", role)
    if key in _cache:
        return _cache[key]
    I = H.new_interp(F)
    tr = Tr("main")
    if role == "prover":
        pc = H.mk_pc_gens()
        obj = I.call_fn(H.P_PRV + "new", [pc, tr])
        t_new = list(I.trace.items)
        I.trace.items.clear()
        # give the fresh prover a symbolic history of m commitments
        obj.fields["secrets"].fields["v"] = H.sc_vec("v", isym("m"))
        obj.fields["secrets"].fields["v_blinding"] = H.sc_vec("vb", isym("m"))
        ret = I.call_fn(H.P_PRV + "commit", [obj, Sc(ssym("v_new")), Sc(ssym("vb_new"))])
        t_commit = list(I.trace.items)
    else:
        obj = I.call_fn(H.P_VER + "new", [tr])
        t_new = list(I.trace.items)
        I.trace.items.clear()
        obj.fields["V"] = H.pt_vec("V", isym("m"))
        ret = I.call_fn(H.P_VER + "commit", [obj, Pt.atom(ssym("V_new"))])
        t_commit = list(I.trace.items)
    out = {"new": t_new, "commit": t_commit, "obj": obj, "ret": ret, "tr": tr, "I": I}
    _cache[key] = out
    return out


def main_filter(tr):
    return isinstance(tr, Tr) and not tr.is_clone()


def verifier_schedule(F, collect=None):
    nc = run_new_commit(F, "verifier")
    A = AN.verifier_scalars(F)
    roles = S.RoleMap([("V[*]", Pt.atom(ssym("V_new")))])
    r_new = S.to_regex(nc["new"], roles, main_filter, collect)
    r_commit = S.to_regex(nc["commit"], roles, main_filter, collect)
    r_main = S.to_regex(A["I"].trace.items, S.RoleMap(), main_filter, collect)
    pre = ("star", ("alt", r_commit, ("sym", ("USER", "", ""))))
    return ("seq", [r_new, pre, r_main]), {"new": r_new, "commit": r_commit, "main": r_main}


def prover_schedule(F, collect=None):
    nc = run_new_commit(F, "prover")
    P = AN.prover_run(F)
    proof = P["proof"]
    fields = []
    for name, v in proof.fields.items():
        if name == "ipp_proof":
            continue
        vals = [v]
        from .alg import Ite

        if isinstance(v, Ite):
            vals = [v, v.a, v.b]
        for x in vals:
            fields.append(("pf." + name, x))
    retV = nc["ret"].items[0] if isinstance(nc["ret"], Tup) else None
    roles_c = S.RoleMap([("V[*]", retV)])
    r_new = S.to_regex(nc["new"], roles_c, main_filter, collect)
    r_commit = S.to_regex(nc["commit"], roles_c, main_filter, collect)
    # splice the inner-product schedule in place of the create call
    C = ipp.analyse_create(F)
    items = []
    for it in P["I"].trace.items:
        if it[0] == "call" and it[1]["what"] == "ipp_create":
            n = it[1]["n"]
            h = C["h"]
            cfields = []
            cret = C["ret"]
            for nm, fld in (("pf.L[*]", "L_vec"), ("pf.R[*]", "R_vec")):
                o_ = cret.fields.get(fld) if isinstance(cret, Struct) else None
                if isinstance(o_, Opaque) and o_.what == "rounds-list":
                    for vv in (ipp.pick_then(o_.info["first"]), o_.info["generic"]):
                        if isinstance(vv, Vec) and vv.segs:
                            cfields.append((nm, vv.index(sp.Integer(0))))
            from .interp import subst_val

            m_ = {h: sp.Rational(1, 2) * n}
            sub = [subst_item(x, m_) for x in C["trace"]]
            cfields = [(nm, subst_val(vv, m_)) for nm, vv in cfields]
            rr = S.to_regex(sub, S.RoleMap(cfields), lambda tr: True, collect)
            # the n = 2h instance cannot be a length-1 argument; that instance (k = 0 rounds) is analysed on its own and
            # offered as an alternative, so an early exit taken only at n == 1 is part of the role's language
            C1 = ipp.analyse_create_n1(F)
            if "error" in C1:
                raise C1["error"]
            sub1 = [subst_item(x, {C1["n"]: n}) for x in C1["trace"]]
            rr1 = S.to_regex(sub1, S.RoleMap([]), lambda tr: True, collect)
            items.append(("splice", ("alt", rr1, rr)))
        else:
            items.append(it)
    r_main = S.to_regex(items, S.RoleMap(fields), main_filter, collect)
    pre = ("star", ("alt", r_commit, ("sym", ("USER", "", ""))))
    return ("seq", [r_new, pre, r_main]), {"new": r_new, "commit": r_commit, "main": r_main}


# -- reference schedule (dalek notes r1cs_proof + this crate's labels) -----------------------------


def sym_msg(label, const):
    return ("sym", ("append_message", label, "const:" + const))


def sym_pt(label, role):
    return ("sym", ("append_point", label, "point:" + role))


def sym_sc(label, role):
    return ("sym", ("append_scalar", label, "scalar:" + role))


def sym_u64(label, expr):
    return ("sym", ("append_u64", label, "int:" + expr))


def sym_ch(label):
    return ("sym", ("challenge", label, ""))


USER = ("sym", ("USER", "", ""))


def reference_schedule():
    N = "n1 + n2 + pad(n1 + n2)"
    seq = [
        sym_msg("dom-sep", "r1cs v1"),
        ("star", ("alt", sym_pt("V", "V[*]"), USER)),
        sym_u64("m", "m"),
        sym_pt("A_I1", "pf.A_I1"),
        sym_pt("A_O1", "pf.A_O1"),
        sym_pt("S1", "pf.S1"),
        ("alt", sym_msg("dom-sep", "r1cs-1phase"), ("seq", [sym_msg("dom-sep", "r1cs-2phase"), ("star", USER)])),
        sym_pt("A_I2", "pf.A_I2"),
        sym_pt("A_O2", "pf.A_O2"),
        sym_pt("S2", "pf.S2"),
        sym_ch("y"),
        sym_ch("z"),
        sym_pt("T_1", "pf.T_1"),
        sym_pt("T_3", "pf.T_3"),
        sym_pt("T_4", "pf.T_4"),
        sym_pt("T_5", "pf.T_5"),
        sym_pt("T_6", "pf.T_6"),
        sym_ch("u"),
        sym_ch("x"),
        sym_sc("t_x", "pf.t_x"),
        sym_sc("t_x_blinding", "pf.t_x_blinding"),
        sym_sc("e_blinding", "pf.e_blinding"),
        sym_ch("w"),
        sym_msg("dom-sep", "ipp v1"),
        sym_u64("n", N),
        ("star", ("seq", [sym_pt("L", "pf.L[*]"), sym_pt("R", "pf.R[*]"), sym_ch("u")])),
    ]
    return ("seq", seq)

"""Comparison of extracted vectors with reference segment tables."""
import sympy as sp

from .alg import Pt, Sc, Unanalysable, Vec, eq, isym, show


def eq_b(a, b, bounds):
    from .alg import le

    return eq(a, b) or (bounds is not None and le(a, b, bounds) and le(b, a, bounds))


def total_len(ref_segs):
    return sp.expand(sum((sp.sympify(n) for _, n, _ in ref_segs), sp.Integer(0)))


def compare_scalars(ck, rule, actual, ref_segs, bounds, proportional=True, where="", prefix=""):
    """one obligation per reference segment; `proportional`: equality up to one common factor,
    checked as act_k * ref_0 == ref_k * act_0 against the first segment."""
    if not isinstance(actual, Vec):
        ck.fail(rule, prefix + "shape", f"sink is not a vector: {actual!r}", where)
        return False
    ok_all = True
    if not eq_b(actual.length(), total_len(ref_segs), bounds):
        ck.fail(rule, prefix + "length", f"vector has length {actual.length()}, reference layout has {total_len(ref_segs)}", where)
        return False
    j = isym("_j")
    name0, n0, f0 = ref_segs[0]
    try:
        act0 = actual.index(sp.Integer(0), bounds)
    except Unanalysable as u:
        ck.fail(rule, prefix + name0, f"cannot read first element: {u.msg}", where, kind="unanalysable")
        return False
    act0 = act0.e if isinstance(act0, Sc) else None
    ref0 = sp.sympify(f0(sp.Integer(0)))
    off = sp.Integer(0)
    for name, n, f in ref_segs:
        n = sp.sympify(n)
        try:
            part = actual.slice(off, sp.expand(off + n), bounds)
            good = True
            why = ""
            sub_off = sp.Integer(0)
            for sub in part.nonempty_segs():
                a = sub.f(j)
                if not isinstance(a, Sc):
                    good, why = False, f"element is not a scalar: {a!r}"
                    break
                r = sp.sympify(f(sub_off + j))
                if proportional:
                    okk = eq(a.e * ref0, r * act0)
                else:
                    okk = eq(a.e, r)
                if not okk:
                    good = False
                    why = f"extracted `{sp.expand(a.e)}`  vs reference `{sp.expand(r)}`" + (" (up to the common factor of segment 0)" if proportional else "")
                    break
                sub_off = sp.expand(sub_off + sub.n)
            if good:
                ck.ok(rule, prefix + name, detail=f"[{n}] " + (show(part)[:160]))
            else:
                ck.fail(rule, prefix + name, f"scalar for base segment {name}: {why}", where)
                ok_all = False
        except Unanalysable as u:
            ck.fail(rule, prefix + name, f"segment {name} [{off},{off}+{n}) cannot be aligned: {u.msg}", where, kind="unanalysable")
            ok_all = False
        off = sp.expand(off + n)
    return ok_all


def compare_bases(ck, rule, actual, ref_segs, bounds, where="", prefix=""):
    """base vector: every element must be the single base atom the layout names"""
    if not eq_b(actual.length(), total_len(ref_segs), bounds):
        ck.fail(rule, prefix + "length", f"base vector has length {actual.length()}, reference layout has {total_len(ref_segs)}", where)
        return False
    j = isym("_j")
    off = sp.Integer(0)
    ok_all = True
    for name, n, f in ref_segs:
        n = sp.sympify(n)
        try:
            part = actual.slice(off, sp.expand(off + n), bounds)
            sub_off = sp.Integer(0)
            good, why = True, ""
            for sub in part.nonempty_segs():
                a = sub.f(j)
                want = Pt.atom(sp.sympify(f(sub_off + j)))
                from .alg import pt_eq

                if not (isinstance(a, Pt) and pt_eq(a, want)):
                    good, why = False, f"extracted {a!r} vs reference {want!r}"
                    break
                sub_off = sp.expand(sub_off + sub.n)
            if good:
                ck.ok(rule, prefix + name, detail=f"[{n}]")
            else:
                ck.fail(rule, prefix + name, f"base segment {name}: {why}", where)
                ok_all = False
        except Unanalysable as u:
            ck.fail(rule, prefix + name, f"base segment {name} cannot be aligned: {u.msg}", where, kind="unanalysable")
            ok_all = False
        off = sp.expand(off + n)
    return ok_all

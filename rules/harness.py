"""Symbolic inputs and hooks for interpreting the crate's entry points."""
import sympy as sp

from . import facts as FX
from .alg import Bytes, Cond, Enum, IntV, Ite, Opaque, Pt, Sc, Seg, Struct, Tup, Unanalysable, Vec, isym, sfun, ssym
from .interp import UNIT, Interp, RngV, Tr

P_VER = "r1cs::verifier::Verifier::<G, T>::"
P_PRV = "r1cs::prover::Prover::<'g, G, T>::"
P_IPP = "inner_product_proof::InnerProductProof::<G>::"


def pt_vec(name, n):
    return Vec.atom(name, n, mk=lambda e: Pt.atom(e))


def sc_vec(name, n):
    return Vec.atom(name, n)


def mk_pc_gens():
    return Struct("generators::PedersenGens", {"B": Pt.atom(ssym("B")), "B_blinding": Pt.atom(ssym("Bb"))})


def mk_bp_gens(cap=None):
    cap = cap if cap is not None else isym("cap")
    parties = isym("parties")
    G = Vec([Seg(parties, lambda j: pt_vec("G", cap) if j == 0 else pt_vec(f"G_p{j}", cap))])
    H = Vec([Seg(parties, lambda j: pt_vec("H", cap) if j == 0 else pt_vec(f"H_p{j}", cap))])
    return Struct("generators::BulletproofGens", {"gens_capacity": IntV(cap), "party_capacity": IntV(parties), "G_vec": G, "H_vec": H})


def mk_proof(lg=None, tag="", lgR=None):
    lg = lg if lg is not None else isym("lg" + tag)
    lgR = lgR if lgR is not None else isym("lgR" + tag)
    f = {}
    for n in ("A_I1", "A_O1", "S1", "A_I2", "A_O2", "S2", "T_1", "T_3", "T_4", "T_5", "T_6"):
        f[n] = Pt.atom(ssym("pf." + n + tag))
    for n in ("t_x", "t_x_blinding", "e_blinding"):
        f[n] = Sc(ssym("pf." + n + tag))
    ipp = Struct(
        "inner_product_proof::InnerProductProof",
        {"L_vec": pt_vec("pf.L" + tag, lg), "R_vec": pt_vec("pf.R" + tag, lgR), "a": Sc(ssym("pf.a" + tag)), "b": Sc(ssym("pf.b" + tag))},
    )
    f["ipp_proof"] = ipp
    return Struct("r1cs::proof::R1CSProof", f)


def mk_verifier(tr=None, tag=""):
    tr = tr or Tr("main" + tag)
    n1 = isym("n1" + tag)
    m = isym("m" + tag)
    ncb = isym("ncb" + tag)
    return Struct(
        "r1cs::verifier::Verifier",
        {
            "transcript": tr,
            "constraints": Opaque("constraints"),
            "num_vars": IntV(n1),
            "V": pt_vec("V" + tag, m),
            "deferred_constraints": Vec.atom("cb" + tag, ncb, mk=lambda e: Opaque("callback", id=e)),
            "pending_multiplier": Opaque("pending"),
        },
    )


def mk_prover(tr=None, pc=None):
    tr = tr or Tr("main")
    n1 = isym("n1")
    m = isym("m")
    ncb = isym("ncb")
    sec = Struct(
        "r1cs::prover::Secrets",
        {"a_L": sc_vec("aL", n1), "a_R": sc_vec("aR", n1), "a_O": sc_vec("aO", n1), "v": sc_vec("v", m), "v_blinding": sc_vec("vb", m)},
    )
    return Struct(
        "r1cs::prover::Prover",
        {
            "transcript": tr,
            "pc_gens": pc or mk_pc_gens(),
            "constraints": Opaque("constraints"),
            "secrets": sec,
            "deferred_constraints": Vec.atom("cb", ncb, mk=lambda e: Opaque("callback", id=e)),
            "pending_multiplier": Opaque("pending"),
        },
    )


# -- hooks ------------------------------------------------------------------------------


def havoc_callback(I, fval, args, e, env):
    """A user callback of the randomized phase: it can only use the constraint-system API of the
    wrapper it is given (R16.6): gates grow in lock-step by a fresh n2 >= 0 (idempotent), constraints
    change, the main transcript gets a USER hole."""
    if not (isinstance(fval, Opaque) and fval.what == "callback"):
        raise Unanalysable(f"indirect call of {fval!r}")
    w = I.deref(args[0])
    if not isinstance(w, Struct):
        raise Unanalysable("callback argument")
    inner = w.fields.get("verifier") or w.fields.get("prover")
    if inner is None:
        raise Unanalysable("callback argument is not a randomizing wrapper")
    tag = getattr(I, "tag", "")
    n2 = isym("n2" + tag)
    I.havoc_count += 1  # idempotent summary of arbitrary user code: exempt from the loop-carried-state rule
    if not getattr(inner, "_havoc", False):
        inner._havoc = True
        if "num_vars" in inner.fields:
            inner.fields["num_vars"] = IntV(inner.fields["num_vars"].e + n2)
        if "secrets" in inner.fields:
            sec = inner.fields["secrets"]
            for k, nm in (("a_L", "aL"), ("a_R", "aR"), ("a_O", "aO")):
                old = sec.fields[k]
                base = old.length()
                f = sfun(nm)
                sec.fields[k] = Vec(old.segs + [Seg(n2, lambda j, f=f, base=base: Sc(f(base + j)))])
        inner.fields["constraints"] = Opaque("constraints'")
        inner.fields["pending_multiplier"] = Opaque("pending'")
    # which transcript does user code inside the callback act on?  ask the wrapper's own API:
    # cs.transcript() and cs.challenge_scalar(..) (evaluated on the wrapper value, effects discarded)
    tr_user = inner.fields["transcript"]
    tr_chal = inner.fields["transcript"]
    wpath = w.path
    try:
        m_tr = [p_ for p_ in I.F.fns if p_.startswith("<" + wpath) and p_.endswith("ConstraintSystem<<G as ark_ec::AffineRepr>::ScalarField>>::transcript")]
        m_ch = [p_ for p_ in I.F.fns if p_.startswith("<" + wpath) and p_.endswith(">::challenge_scalar")]
        from .alg import Ref

        box = [w]
        wref = Ref(lambda: box[0], lambda nv: box.__setitem__(0, nv), "wrapper")
        if m_tr:
            old = I.sub_trace()
            try:
                r_ = I.deref(I.call_fn(m_tr[0], [wref]))
                if isinstance(r_, Tr):
                    tr_user = r_
            finally:
                I.trace = old
        if m_ch:
            old = I.sub_trace()
            try:
                I.call_fn(m_ch[0], [wref, Bytes([("lit", b"probe")])])
                ops = [it[1] for it in I.trace.items if it[0] == "op"]
                if ops:
                    tr_chal = ops[0]["tr"]
                    key = (tr_chal.root().id, b"probe")
                    I.chal_count.pop(key, None)
            finally:
                I.trace = old
    except Unanalysable:
        pass
    I.trace.add("user", {"tr": tr_user, "tr_challenge": tr_chal, "where": FX.short(e.get("sp"))})
    return Opaque("result", ok=UNIT, desc="callback-error")


def hook_flatten_verifier(I, args, node):
    self = I.deref(args[0])
    z = I.deref(args[1])
    n = self.fields["num_vars"].e
    m = self.fields["V"].length()
    I.flatten_calls.append({"role": "verifier", "z": z, "n": n, "m": m, "where": FX.short(node.get("sp"))})
    from . import flatten as FL

    return FL.shaped_return(I.F, "verifier", lambda r: Sc(ssym("wc")) if r == "wc" else sc_vec(r, m if r == "wV" else n))


def hook_flatten_prover(I, args, node):
    self = I.deref(args[0])
    z = I.deref(args[1])
    n = self.fields["secrets"].fields["a_L"].length()
    m = self.fields["secrets"].fields["v"].length()
    I.flatten_calls.append({"role": "prover", "z": z, "n": n, "m": m, "where": FX.short(node.get("sp"))})
    from . import flatten as FL

    return FL.shaped_return(I.F, "prover", lambda r: sc_vec(r, m if r == "wV" else n))


def hook_exp_iter(I, args, node):
    from .interp import IterV

    x = I.deref(args[0])
    return IterV(None, infinite=lambda i, x=x: Sc(x.e**i))


def hook_filter_nonzero(I, a, e):
    """filter(|f| !f.is_zero()) over inverted challenges: identity on the non-degenerate path (a challenge is zero with
    negligible probability).  Every other filter changes lengths data-dependently and is outside the fragment."""
    from .interp import IterV
    from .alg import Closure

    f = I.deref(a[1]) if len(a) > 1 else None
    it = I.deref(a[0])
    vec = it.vec if isinstance(it, IterV) else (it if isinstance(it, Vec) else None)
    ok = isinstance(f, Closure) and vec is not None
    if ok:
        b = f.node["body"]
        while b["k"] == "Block" and not b["stmts"] and b.get("expr"):
            b = b["expr"]
        inner = FX.strip(b["e"]) if b["k"] == "Unary" and b.get("op") == "!" else None
        ok = inner is not None and inner["k"] == "MethodCall" and (FX.callee_path(inner) or "").endswith("Zero::is_zero")
    if ok:
        # elements must be inverses of transcript challenges
        import sympy as _sp

        for s_ in vec.nonempty_segs():
            el = s_.f(isym("_j"))
            ok = ok and isinstance(el, Sc) and all(str(getattr(x, "func", x)).startswith("ch[") for x in el.e.atoms(_sp.Function) | el.e.free_symbols if str(x) != "_j")
    if not ok:
        raise Unanalysable("Iterator::filter changes lengths data-dependently (only `filter(|x| !x.is_zero())` over challenge inverses is recognised)", FX.short(e.get("sp")))
    I.asserts.append(("filter-assumed-identity", FX.short(e.get("sp"))))
    return a[0]


def base_hooks():
    return {
        "indirect": havoc_callback,
        "util::exp_iter": hook_exp_iter,
        "filter": hook_filter_nonzero,
    }


def new_interp(F, extra_hooks=None):
    h = base_hooks()
    h.update(extra_hooks or {})
    I = Interp(F, hooks=h)
    I.flatten_calls = []
    I.ipp_create_calls = []
    return I


def hook_ipp_create(I, args, node):
    """InnerProductProof::create is analysed on its own (C10); here its arguments are sinks."""
    names = ["transcript", "Q", "G_factors", "H_factors", "G_vec", "H_vec", "a_vec", "b_vec"]
    rec = {k: I.deref(v) for k, v in zip(names, args)}
    rec["where"] = FX.short(node.get("sp"))
    I.ipp_create_calls.append(rec)
    I.trace.add("call", {"what": "ipp_create", "tr": rec["transcript"], "n": rec["G_vec"].length() if isinstance(rec["G_vec"], Vec) else None, "where": rec["where"]})
    lg = isym("lg")
    return Struct(
        "inner_product_proof::InnerProductProof",
        {"L_vec": pt_vec("ipp.L", lg), "R_vec": pt_vec("ipp.R", lg), "a": Sc(ssym("ipp.a")), "b": Sc(ssym("ipp.b"))},
    )

"""Symbolic inputs and hooks for interpreting the crate's entry points."""
import sympy as sp

from . import facts as FX
from .alg import Bytes, Cond, Enum, IntV, Ite, Opaque, Pt, Sc, Seg, Struct, Tup, Unanalysable, Vec, isym, sfun, ssym
from .interp import UNIT, Interp, RngV, Tr

P_VER = "r1cs::verifier::Verifier::<G, T>::"
P_PRV = "r1cs::prover::Prover::<'g, G, T>::"
P_IPP = "inner_product_proof::InnerProductProof::<G>::"


def pt_vec(name, n):
    return Vec.atom(name, n, mk=lambda e: Pt.atom(e))


def sc_vec(name, n):
    return Vec.atom(name, n)


def mk_pc_gens():
    return Struct("generators::PedersenGens", {"B": Pt.atom(ssym("B")), "B_blinding": Pt.atom(ssym("Bb"))})


def mk_bp_gens(cap=None):
    cap = cap if cap is not None else isym("cap")
    parties = isym("parties")
    G = Vec([Seg(parties, lambda j: pt_vec("G", cap) if j == 0 else pt_vec(f"G_p{j}", cap))])
    H = Vec([Seg(parties, lambda j: pt_vec("H", cap) if j == 0 else pt_vec(f"H_p{j}", cap))])
    return Struct("generators::BulletproofGens", {"gens_capacity": IntV(cap), "party_capacity": IntV(parties), "G_vec": G, "H_vec": H})


def mk_proof(lg=None, tag="", lgR=None):
    lg = lg if lg is not None else isym("lg" + tag)
    lgR = lgR if lgR is not None else isym("lgR" + tag)
    f = {}
    for n in ("A_I1", "A_O1", "S1", "A_I2", "A_O2", "S2", "T_1", "T_3", "T_4", "T_5", "T_6"):
        f[n] = Pt.atom(ssym("pf." + n + tag))
    for n in ("t_x", "t_x_blinding", "e_blinding"):
        f[n] = Sc(ssym("pf." + n + tag))
    ipp = Struct(
        "inner_product_proof::InnerProductProof",
        {"L_vec": pt_vec("pf.L" + tag, lg), "R_vec": pt_vec("pf.R" + tag, lgR), "a": Sc(ssym("pf.a" + tag)), "b": Sc(ssym("pf.b" + tag))},
    )
    f["ipp_proof"] = ipp
    return Struct("r1cs::proof::R1CSProof", f)


def mk_verifier(tr=None, tag=""):
    tr = tr or Tr("main" + tag)
    n1 = isym("n1" + tag)
    m = isym("m" + tag)
    ncb = isym("ncb" + tag)
    return Struct(
        "r1cs::verifier::Verifier",
        {
            "transcript": tr,
            "constraints": Opaque("constraints"),
            "num_vars": IntV(n1),
            "V": pt_vec("V" + tag, m),
            "deferred_constraints": Vec.atom("cb" + tag, ncb, mk=lambda e: Opaque("callback", id=e)),
            "pending_multiplier": Opaque("pending"),
        },
    )


def mk_prover(tr=None, pc=None):
    tr = tr or Tr("main")
    n1 = isym("n1")
    m = isym("m")
    ncb = isym("ncb")
    sec = Struct(
        "r1cs::prover::Secrets",
        {"a_L": sc_vec("aL", n1), "a_R": sc_vec("aR", n1), "a_O": sc_vec("aO", n1), "v": sc_vec("v", m), "v_blinding": sc_vec("vb", m)},
    )
    return Struct(
        "r1cs::prover::Prover",
        {
            "transcript": tr,
            "pc_gens": pc or mk_pc_gens(),
            "constraints": Opaque("constraints"),
            "secrets": sec,
            "deferred_constraints": Vec.atom("cb", ncb, mk=lambda e: Opaque("callback", id=e)),
            "pending_multiplier": Opaque("pending"),
        },
    )


# -- hooks ------------------------------------------------------------------------------


def havoc_callback(I, fval, args, e, env):
    """A user callback of the randomized phase: it can only use the constraint-system API of the
    wrapper it is given (R16.6): gates grow in lock-step by a fresh n2 >= 0 (idempotent), constraints
    change, the main transcript gets a USER hole."""
    if not (isinstance(fval, Opaque) and fval.what == "callback"):
        raise Unanalysable(f"indirect call of {fval!r}")
    w = I.deref(args[0])
    if not isinstance(w, Struct):
        raise Unanalysable("callback argument")
    inner = w.fields.get("verifier") or w.fields.get("prover")
    if inner is None:
        raise Unanalysable("callback argument is not a randomizing wrapper")
    tag = getattr(I, "tag", "")
    n2 = isym("n2" + tag)
    I.havoc_count += 1  # idempotent summary of arbitrary user code: exempt from the loop-carried-state rule
    if not getattr(inner, "_havoc", False):
        inner._havoc = True
        if "num_vars" in inner.fields:
            inner.fields["num_vars"] = IntV(inner.fields["num_vars"].e + n2)
        if "secrets" in inner.fields:
            sec = inner.fields["secrets"]
            for k, nm in (("a_L", "aL"), ("a_R", "aR"), ("a_O", "aO")):
                old = sec.fields[k]
                base = old.length()
                f = sfun(nm)
                sec.fields[k] = Vec(old.segs + [Seg(n2, lambda j, f=f, base=base: Sc(f(base + j)))])
        inner.fields["constraints"] = Opaque("constraints'")
        inner.fields["pending_multiplier"] = Opaque("pending'")
    # which transcript does user code inside the callback act on?  ask the wrapper's own API:
    # cs.transcript() and cs.challenge_scalar(..) (evaluated on the wrapper value, effects discarded)
    tr_user = inner.fields["transcript"]
    tr_chal = inner.fields["transcript"]
    wpath = w.path
    try:
        m_tr = [p_ for p_ in I.F.fns if p_.startswith("<" + wpath) and p_.endswith("ConstraintSystem<<G as ark_ec::AffineRepr>::ScalarField>>::transcript")]
        m_ch = [p_ for p_ in I.F.fns if p_.startswith("<" + wpath) and p_.endswith(">::challenge_scalar")]
        from .alg import Ref

        box = [w]
        wref = Ref(lambda: box[0], lambda nv: box.__setitem__(0, nv), "wrapper")
        if m_tr:
            old = I.sub_trace()
            try:
                r_ = I.deref(I.call_fn(m_tr[0], [wref]))
                if isinstance(r_, Tr):
                    tr_user = r_
            finally:
                I.trace = old
        if m_ch:
            old = I.sub_trace()
            try:
                I.call_fn(m_ch[0], [wref, Bytes([("lit", b"probe")])])
                ops = [it[1] for it in I.trace.items if it[0] == "op"]
                if ops:
                    tr_chal = ops[0]["tr"]
                    key = (tr_chal.root().id, b"probe")
                    I.chal_count.pop(key, None)
            finally:
                I.trace = old
    except Unanalysable:
        pass
    I.trace.add("user", {"tr": tr_user, "tr_challenge": tr_chal, "where": FX.short(e.get("sp"))})
    return Opaque("result", ok=UNIT, desc="callback-error")



def eval_site(F):
    """(def path, receiver) of the prover's linear-combination evaluator: `Prover::eval` under its reviewed path, or --
    when a clean-up moved it next to the assignment it reads -- the one function of r1cs::prover taking (&Secrets, &LC) and
    returning a scalar.  receiver is "prover" or "secrets" (what the first argument is)."""
    try:
        return F.resolve(P_PRV + "eval"), "prover"
    except FX.AnchorMissing:
        pass
    cands = []
    for p, fn in F.fns.items():
        if not p.startswith("r1cs::prover::") or fn.get("expn"):
            continue
        sig = FX.fn_sig(fn)
        ps = sig["params"]
        if len(ps) == 2 and "r1cs::prover::Secrets<" in ps[0] and ps[0].startswith("&") and "LinearCombination<" in ps[1] and "ScalarField" in sig["ret"] and "Vec<" not in sig["ret"]:
            cands.append(p)
    if len(cands) == 1:
        return cands[0], "secrets"
    raise FX.AnchorMissing(P_PRV + "eval")

_FLAT_SITE = {}
FLAT_INT_ROLES = {}


def flatten_site(F, role):
    """Where the role's constraint flattening lives: the reviewed method `flattened_constraints(&mut self, &z)`, or -- when the
    twins were merged -- the one crate-local function called from the role's entry point that takes a list of linear
    combinations and one scalar and returns vectors.  {path, style, params}: params gives each parameter's role
    (self | cons | z | int)."""
    key = (id(F), role)
    if key in _FLAT_SITE:
        return _FLAT_SITE[key]
    P = P_PRV if role == "prover" else P_VER
    try:
        site = {"path": F.resolve(P + "flattened_constraints"), "style": "method", "params": ["self", "z"]}
    except FX.AnchorMissing:
        entry = F.fn(P + ("prove_and_return_transcript" if role == "prover" else "verification_scalars"))
        called = set()
        for n_ in FX.walk(entry["body"]):
            if n_["k"] in ("Call", "MethodCall"):
                ci = FX.callee_info(n_)
                for p_ in (ci.get("resolved"), ci.get("path")):
                    if p_:
                        called.add(FX.canon_path(p_))
        cands = []
        for p_, fn in F.fns.items():
            if fn.get("expn") or FX.canon_path(p_) not in called:
                continue
            sig = FX.fn_sig(fn)
            roles = []
            for ty in sig["params"]:
                if "LinearCombination<" in ty and (ty.startswith("&[") or "Vec<" in ty):
                    roles.append("cons")
                elif ty == "usize":
                    roles.append("int")
                else:
                    roles.append("z")
            if roles.count("cons") == 1 and roles.count("z") == 1 and "Vec<" in sig["ret"]:
                cands.append((p_, roles))
        if len(cands) != 1:
            raise FX.AnchorMissing(P + "flattened_constraints")
        site = {"path": cands[0][0], "style": "free", "params": cands[0][1]}
    _FLAT_SITE[key] = site
    return site


def _flatten_hook(role):
    def hook(I, args, node):
        from . import flatten as FL
        from .alg import eq as _eq, vec_eq as _veq

        site = flatten_site(I.F, role)
        vals = [I.deref(a) for a in args]
        if site["style"] == "method":
            self = vals[0]
            z = vals[1]
            if role == "verifier":
                n, m = self.fields["num_vars"].e, self.fields["V"].length()
            else:
                n, m = self.fields["secrets"].fields["a_L"].length(), self.fields["secrets"].fields["v"].length()
        else:
            # shared helper: it must be handed this role's whole constraint list, its gate count and its commitment count
            obj = getattr(I, "role_obj", {}).get(role)
            if obj is None:
                raise Unanalysable("flattening helper called outside a role run")
            if role == "verifier":
                n, m = I.deref(obj.fields["num_vars"]).e, I.deref(obj.fields["V"]).length()
            else:
                sec = I.deref(obj.fields["secrets"])
                n, m = I.deref(sec.fields["a_L"]).length(), I.deref(sec.fields["v"]).length()
            roles, z = [], None
            for r_, v_ in zip(site["params"], vals):
                if r_ == "cons":
                    cons_now = I.deref(obj.fields["constraints"])
                    if not (v_ is cons_now or (isinstance(v_, Vec) and isinstance(cons_now, Vec) and _veq(v_, cons_now, []))):
                        raise Unanalysable("the flattening helper is not given the role's whole constraint list", FX.short(node.get("sp")))
                    roles.append("cons")
                elif r_ == "z":
                    z = v_
                    roles.append("z")
                elif isinstance(v_, IntV) and _eq(v_.e, n):
                    roles.append("n")
                elif isinstance(v_, IntV) and _eq(v_.e, m):
                    roles.append("m")
                else:
                    raise Unanalysable(f"size argument {v_!r} of the flattening helper is neither the gate count {n} nor the commitment count {m}", FX.short(node.get("sp")))
            FLAT_INT_ROLES[(id(I.F), role)] = roles
        I.flatten_calls.append({"role": role, "z": z, "n": n, "m": m, "where": FX.short(node.get("sp"))})
        if role == "verifier":
            return FL.shaped_return(I.F, role, lambda r: Sc(ssym("wc")) if r == "wc" else sc_vec(r, m if r == "wV" else n))
        # a shared helper also hands the prover the constant weight, which the prover has no use for: poisoned, so that any
        # use of it stops the analysis (fail closed)
        return FL.shaped_return(I.F, role, lambda r: Opaque("unused-constant-weight") if r == "wc" else sc_vec(r, m if r == "wV" else n))

    return hook


hook_flatten_verifier = _flatten_hook("verifier")
hook_flatten_prover = _flatten_hook("prover")


def flatten_hooks(F, role):
    """{def path: hook} for the role's flattening site"""
    return {flatten_site(F, role)["path"]: hook_flatten_verifier if role == "verifier" else hook_flatten_prover}


def hook_exp_iter(I, args, node):
    from .interp import IterV

    x = I.deref(args[0])
    return IterV(None, infinite=lambda i, x=x: Sc(x.e**i))


def hook_filter_nonzero(I, a, e):
    """filter(|f| !f.is_zero()) over inverted challenges: identity on the non-degenerate path (a challenge is zero with
    negligible probability).  Every other filter changes lengths data-dependently and is outside the fragment."""
    from .interp import IterV
    from .alg import Closure

    f = I.deref(a[1]) if len(a) > 1 else None
    it = I.deref(a[0])
    vec = it.vec if isinstance(it, IterV) else (it if isinstance(it, Vec) else None)
    ok = isinstance(f, Closure) and vec is not None
    if ok:
        b = f.node["body"]
        while b["k"] == "Block" and not b["stmts"] and b.get("expr"):
            b = b["expr"]
        inner = FX.strip(b["e"]) if b["k"] == "Unary" and b.get("op") == "!" else None
        ok = inner is not None and inner["k"] == "MethodCall" and (FX.callee_path(inner) or "").endswith("Zero::is_zero")
    if ok:
        # elements must be inverses of transcript challenges
        import sympy as _sp

        for s_ in vec.nonempty_segs():
            el = s_.f(isym("_j"))
            ok = ok and isinstance(el, Sc) and all(str(getattr(x, "func", x)).startswith("ch[") for x in el.e.atoms(_sp.Function) | el.e.free_symbols if str(x) != "_j")
    if not ok:
        raise Unanalysable("Iterator::filter changes lengths data-dependently (only `filter(|x| !x.is_zero())` over challenge inverses is recognised)", FX.short(e.get("sp")))
    I.asserts.append(("filter-assumed-identity", FX.short(e.get("sp"))))
    return a[0]


def base_hooks():
    return {
        "indirect": havoc_callback,
        "util::exp_iter": hook_exp_iter,
        "filter": hook_filter_nonzero,
    }


def new_interp(F, extra_hooks=None):
    h = base_hooks()
    h.update(extra_hooks or {})
    I = Interp(F, hooks=h)
    I.flatten_calls = []
    I.ipp_create_calls = []
    return I


def hook_ipp_create(I, args, node):
    """InnerProductProof::create is analysed on its own (C10); here its arguments are sinks."""
    names = ["transcript", "Q", "G_factors", "H_factors", "G_vec", "H_vec", "a_vec", "b_vec"]
    rec = {k: I.deref(v) for k, v in zip(names, args)}
    rec["where"] = FX.short(node.get("sp"))
    I.ipp_create_calls.append(rec)
    I.trace.add("call", {"what": "ipp_create", "tr": rec["transcript"], "n": rec["G_vec"].length() if isinstance(rec["G_vec"], Vec) else None, "where": rec["where"]})
    lg = isym("lg")
    return Struct(
        "inner_product_proof::InnerProductProof",
        {"L_vec": pt_vec("ipp.L", lg), "R_vec": pt_vec("ipp.R", lg), "a": Sc(ssym("ipp.a")), "b": Sc(ssym("ipp.b"))},
    )

"""Inner-product argument: round summaries of `create`, the verifier's s-recurrence (C10), and
the schedule of both (used by SCHED for C06)."""
import os

import sympy as sp

from . import facts as FX
from . import harness as H
from .alg import Cond, Enum, IntV, Ite, Opaque, Pt, Sc, Seg, Struct, Tup, Unanalysable, Vec, eq, isym, mk_sum, pt_eq, sfun, ssym, val_eq, vec_eq, show, zip_vecs
from .interp import UNIT, Tr, Trace

P_CREATE = H.P_IPP + "create"
P_VS = H.P_IPP + "verification_scalars"
P_VERIFY = H.P_IPP + "verify"

_cache = {}


def _is_break_block(b):
    return b is not None and b["k"] == "Block" and len(b["stmts"]) == 1 and b["stmts"][0]["k"] in ("Expr", "Semi") and b["stmts"][0]["e"]["k"] == "Break" and b.get("expr") is None


def loop_shape(e):
    """(condition node, negate?, body block) of a loop that runs while a condition holds:
    `while c { body }`  (desugared `loop { if c { body } else { break } }`)  or  `loop { if c { break; } body.. }`"""
    blk = e["body"]
    if blk["k"] != "Block":
        return None
    top = blk.get("expr")
    if not blk["stmts"] and top is not None and top["k"] == "If" and top["c"]["k"] != "LetExpr" and _is_break_block(top.get("f")):
        return top["c"], False, top["t"]
    if blk["stmts"] and blk["stmts"][0]["k"] in ("Expr", "Semi"):
        first = blk["stmts"][0]["e"]
        if first["k"] == "If" and first.get("f") is None and first["c"]["k"] != "LetExpr" and _is_break_block(first["t"]):
            rest = {"k": "Block", "stmts": blk["stmts"][1:], "expr": blk.get("expr"), "sp": blk.get("sp"), "ty": blk.get("ty")}
            if not FX.own_jumps(rest):
                return first["c"], True, rest
    return None


def analyse_create(F):
    key = (id(F), "create")
    if key in _cache:
        return _cache[key]
    h = isym("h")
    tr = Tr("ipp")
    I = H.new_interp(F)
    info = {"rounds": []}

    def while_hook(I_, e, env):
        if not (I_.fn_stack and FX.same_fn(I_.fn_stack[-1], P_CREATE)):
            return NotImplemented
        shape = loop_shape(e)
        if shape is None:
            return NotImplemented
        cond_e, negate, body = shape

        def ev_cond():
            v = I_.ev(cond_e, env)
            if negate:
                from .alg import BoolV

                try:
                    c_ = I_.as_cond(v)
                except Unanalysable:
                    return v  # merged (conditional) state before the loop: only the generic round's condition is checked
                v = BoolV((not c_) if isinstance(c_, bool) else c_.negate())
            return v

        if info.get("generic_done"):
            return NotImplemented  # the halving loop was already summarised: any further loop is an ordinary one
        carried = I_.carried_vars(body, env)
        from .alg import Ite as _Ite

        if not any(isinstance(I_.deref(env[lid]), (IntV, _Ite)) for lid in carried):
            return NotImplemented
        pushed, _ = I_.pushed_and_read(body, env)
        info["while_cond"] = ev_cond()
        info["generic_done"] = True
        h2 = isym("h2")
        # state variables are identified by what they hold (provenance of their values), never by their names
        role_atoms = {"av": "a", "bv": "b", "Gv": "G", "Hv": "H"}

        def role_of(v):
            v = I_.deref(v)
            if isinstance(v, Ite):
                for side in (v.a, v.b):
                    r_ = role_of(side)
                    if r_:
                        return r_
                return None
            if isinstance(v, IntV):
                return "n"
            if isinstance(v, Vec) and v.segs:
                el = v.segs[-1].f(isym("_j"))
                txt = repr(el)
                hits = {r_ for a_, r_ in role_atoms.items() if (a_ + "(") in txt}
                if len(hits) == 1 and (eq(v.length(), 2 * h) or eq(v.length(), h)):
                    return hits.pop()
            return None

        byname = {}
        for lid, name in carried.items():
            r_ = role_of(I_.deref(env[lid]))
            if os.environ.get("BPV_DEBUG"):
                print("ROLE", name, r_, repr(I_.deref(env[lid]))[:200])
            if r_ and r_ not in byname:
                byname[r_] = lid
        plists = {name: lid for lid, name in pushed.items()}
        # round lists that are extended through a helper (`record_round(&mut L_vec, &mut R_vec, ..)`): locals mentioned in
        # the body that hold a (possibly conditional) vector of points and play none of the state roles
        names_in_body = {}
        for n_ in FX.walk(body):
            if n_["k"] == "Path" and n_["res"].get("k") == "Local" and n_["res"].get("id") in env:
                names_in_body[n_["res"]["id"]] = n_["res"].get("name")

        def is_point_list(v):
            v = I_.deref(v)
            if isinstance(v, _Ite):
                return is_point_list(v.a) or is_point_list(v.b)
            if isinstance(v, Vec):
                segs_ = v.nonempty_segs()
                return not segs_ and False or (bool(segs_) and isinstance(segs_[0].f(isym("_j")), Pt) and not eq(v.length(), 2 * h))
            return False

        for lid_, nm_ in names_in_body.items():
            if lid_ not in byname.values() and nm_ not in plists and not isinstance(env[lid_], type(None)) and is_point_list(env[lid_]):
                plists[nm_] = lid_
        pre = {r_: I_.deref(env[lid]) for r_, lid in byname.items()}
        pre.update({("list:" + name): I_.deref(env[lid]) for name, lid in plists.items()})
        info["pre_while"] = pre
        need = {"a", "b", "G", "H", "n"}
        if not need <= set(byname):
            raise Unanalysable(f"round state variables {sorted(need - set(byname))} not found in the halving loop", FX.short(e.get("sp")))
        env[byname["n"]] = IntV(2 * h2)
        env[byname["a"]] = H.sc_vec("ra", 2 * h2)
        env[byname["b"]] = H.sc_vec("rb", 2 * h2)
        env[byname["G"]] = H.pt_vec("rG", 2 * h2)
        env[byname["H"]] = H.pt_vec("rH", 2 * h2)
        for name, lid in plists.items():
            env[lid] = Vec([])
        cval = ev_cond()
        old = I_.sub_trace()
        I_.run_body(body, env)
        sub = I_.trace
        I_.trace = old
        post = {r_: I_.deref(env[lid]) for r_, lid in byname.items()}
        post_lists = {name: I_.deref(env[lid]) for name, lid in plists.items()}
        info["rounds"].append({"kind": "generic", "h": h2, "post": post, "post_lists": post_lists, "trace": sub.items, "cond": cval, "where": FX.short(e.get("sp"))})
        I_.trace.add("star", sub.items, {"n": isym("rounds"), "isym": None, "off": 0, "where": FX.short(e.get("sp"))})
        # state after the loop: n == 1
        env[byname["n"]] = IntV(1)
        env[byname["a"]] = H.sc_vec("a_fin", 1)
        env[byname["b"]] = H.sc_vec("b_fin", 1)
        env[byname["G"]] = H.pt_vec("G_fin", 1)
        env[byname["H"]] = H.pt_vec("H_fin", 1)
        for name, lid in plists.items():
            env[lid] = Opaque("rounds-list", first=pre["list:" + name], generic=post_lists[name])
        return UNIT

    I.hooks["while"] = while_hook
    args = [tr, Pt.atom(ssym("Q")), H.sc_vec("gf", 2 * h), H.sc_vec("hf", 2 * h), H.pt_vec("Gv", 2 * h), H.pt_vec("Hv", 2 * h), H.sc_vec("av", 2 * h), H.sc_vec("bv", 2 * h)]
    ret = I.call_fn(P_CREATE, args)
    out = {"I": I, "ret": ret, "info": info, "h": h, "tr": tr, "trace": I.trace.items}
    _cache[key] = out
    return out


def analyse_create_n1(F):
    """The length-1 instance of `create` (k = 0 rounds), which the n = 2h instance above cannot cover: vectors of symbolic
    length n1 with the facts 1 <= n1 <= 1, so every `n == 1` / `n != 1` test is decided and no round runs."""
    key = (id(F), "create_n1")
    if key in _cache:
        return _cache[key]
    n1 = isym("n_one")
    tr = Tr("ipp")
    I = H.new_interp(F)
    I.bounds.add_le(n1, 1)
    I.bounds.add_le(1, n1)

    def while_hook(I_, e, env):
        # a loop whose entry condition is decided false at n = 1 does not run
        shape = loop_shape(e)
        if shape is None:
            return NotImplemented
        cond_e, negate, _body = shape
        try:
            c_ = I_.decide(I_.as_cond(I_.ev(cond_e, env)))
        except Unanalysable:
            return NotImplemented
        if isinstance(c_, bool) and (c_ == bool(negate)):
            return H.UNIT if hasattr(H, "UNIT") else Tup([])
        return NotImplemented

    I.hooks["while"] = while_hook
    args = [tr, Pt.atom(ssym("Q")), H.sc_vec("gf", n1), H.sc_vec("hf", n1), H.pt_vec("Gv", n1), H.pt_vec("Hv", n1), H.sc_vec("av", n1), H.sc_vec("bv", n1)]
    out = {"I": I, "n": n1, "tr": tr}
    try:
        out["ret"] = I.call_fn(P_CREATE, args)
        out["trace"] = I.trace.items
    except Unanalysable as u:
        out["error"] = u
    _cache[key] = out
    return out


def check_create_n1(ck, F, rule="R10.8"):
    """k = 0: no rounds, result (a[0], b[0]) with empty round lists, and exactly the domain separator absorbed"""
    A1 = analyse_create_n1(F)
    where = FX.short(F.fn(P_CREATE)["sp"])
    if "error" in A1:
        ck.fail(rule, "length-1:analysable", f"unanalysable: {A1['error'].msg}", A1["error"].where, kind="unanalysable")
        return A1
    ret = A1["I"].deref(A1["ret"])
    flat = []

    def walk(items, cond_depth):
        for it in items:
            if it[0] == "op":
                flat.append((it[1]["kind"], it[1]["label"], cond_depth))
            elif it[0] == "alt":
                walk(it[2], cond_depth + 1)
                walk(it[3], cond_depth + 1)
            elif it[0] == "star":
                walk(it[1], cond_depth + 1)

    walk(A1["trace"], 0)
    ck.require(flat == [("append_message", b"dom-sep", 0), ("append_u64", b"n", 0)], rule, "length-1:schedule", f"a length-1 argument must absorb exactly the inner-product domain separator and n, unconditionally, and nothing else (the verifier absorbs them before its zero rounds); ops are {flat}", where)
    okr = isinstance(ret, Struct) and isinstance(ret.fields.get("a"), Sc) and isinstance(ret.fields.get("b"), Sc) and str(ret.fields["a"].e) == "av(0)" and str(ret.fields["b"].e) == "bv(0)"
    ck.require(okr, rule, "length-1:a,b", f"for n = 1 the proof's scalars must be a[0], b[0]; got {ret!r}", where)
    okl = isinstance(ret, Struct) and all(isinstance(A1["I"].deref(ret.fields.get(f_)), Vec) and eq(A1["I"].deref(ret.fields[f_]).length(), 0) for f_ in ("L_vec", "R_vec"))
    ck.require(okl, rule, "length-1:no-rounds", f"for n = 1 = 2^0 the proof must have exactly 0 rounds (empty L_vec and R_vec); got {ret!r}", where)
    return A1


# -- reference round (Bulletproofs protocol 2 / dalek notes::inner_product_proof) ----------------


def ref_round(hh, a, b, G, Hh, gf, hf, Q, u):
    """one halving round on vectors of length 2*hh given as index functions"""
    k = isym("_k")
    cL = mk_sum(hh, a(k) * b(hh + k), k)
    cR = mk_sum(hh, a(hh + k) * b(k), k)
    L = Pt(
        [
            (hh, lambda j: G(hh + j), lambda j: a(j) * gf(hh + j)),
            (hh, lambda j: Hh(j), lambda j: b(hh + j) * hf(j)),
            (sp.Integer(1), lambda j: Q, lambda j: cL),
        ]
    )
    R = Pt(
        [
            (hh, lambda j: G(j), lambda j: a(hh + j) * gf(j)),
            (hh, lambda j: Hh(hh + j), lambda j: b(j) * hf(hh + j)),
            (sp.Integer(1), lambda j: Q, lambda j: cR),
        ]
    )
    ui = u**-1
    a2 = Vec([Seg(hh, lambda j: Sc(a(j) * u + ui * a(hh + j)))])
    b2 = Vec([Seg(hh, lambda j: Sc(b(j) * ui + u * b(hh + j)))])
    G2 = Vec([Seg(hh, lambda j: Pt([(sp.Integer(1), (lambda _: G(j)), (lambda _: ui * gf(j))), (sp.Integer(1), (lambda _: G(hh + j)), (lambda _: u * gf(hh + j)))]))])
    H2 = Vec([Seg(hh, lambda j: Pt([(sp.Integer(1), (lambda _: Hh(j)), (lambda _: u * hf(j))), (sp.Integer(1), (lambda _: Hh(hh + j)), (lambda _: ui * hf(hh + j)))]))])
    return {"L": L, "R": R, "a": a2, "b": b2, "G": G2, "H": H2}


def one(j):
    return sp.Integer(1)


def pick_then(v):
    """value on the `n != 1` side of the merged first-round state"""
    if isinstance(v, Ite):
        c = v.cond
        # cond is eq(2h,1) possibly negated: the round runs when n != 1
        if isinstance(c, Cond) and c.op == "eq":
            return v.a if c.neg else v.b
    return v


def round_ops(trace_items, roles=None):
    out = []
    for it in trace_items:
        if it[0] == "op":
            d = it[1]
            out.append((d["kind"], d["label"]))
    return out


def check_create(ck, F):
    A = analyse_create(F)
    I, info, h = A["I"], A["info"], A["h"]
    ck.fn(P_CREATE)
    where = FX.short(F.fn(P_CREATE)["sp"])
    pre = info.get("pre_while")
    if pre is None or not info["rounds"]:
        ck.fail("R10.1", "structure", "create has no halving loop after the first round", where)
        return A
    # --- first (factor-carrying) round
    u0 = ssym("ch[u].d0")
    gfun, hfun = sfun("gf"), sfun("hf")
    ref1 = ref_round(h, sfun("av"), sfun("bv"), sfun("Gv"), sfun("Hv"), gfun, hfun, ssym("Q"), u0)
    first = {k: pick_then(pre.get(k)) for k in ("a", "b", "G", "H", "n")}
    retv = A["ret"]
    lists = {}
    for fld in ("L_vec", "R_vec"):
        o_ = retv.fields.get(fld) if isinstance(retv, Struct) else None
        if isinstance(o_, Opaque) and o_.what == "rounds-list":
            lists[fld] = o_
    first["L_vec"] = pick_then(lists["L_vec"].info["first"]) if "L_vec" in lists else None
    first["R_vec"] = pick_then(lists["R_vec"].info["first"]) if "R_vec" in lists else None

    def cmp_vec(rule, inst, got, want, what):
        why = []
        ok = isinstance(got, Vec) and vec_eq(got, want, why)
        ck.require(ok, rule, inst, f"{what}: extracted {show(got) if isinstance(got, Vec) else got!r}; reference {show(want)}; {'; '.join(why)}", where, detail=show(want)[:200])

    def cmp_pt(rule, inst, gotvec, want, what):
        got = None
        if isinstance(gotvec, Vec) and eq(gotvec.length(), 1):
            got = gotvec.index(sp.Integer(0))
        ck.require(isinstance(got, Pt) and pt_eq(got, want), rule, inst, f"{what}: extracted {got!r}; reference {want!r}", where, detail=repr(want)[:200])

    cmp_pt("R10.1", "first:L", first["L_vec"], ref1["L"], "first-round L")
    cmp_pt("R10.1", "first:R", first["R_vec"], ref1["R"], "first-round R")
    cmp_vec("R10.1", "first:a'", first["a"], ref1["a"], "folded a")
    cmp_vec("R10.1", "first:b'", first["b"], ref1["b"], "folded b")
    cmp_vec("R10.1", "first:G'", first["G"], ref1["G"], "folded G (with G_factors)")
    cmp_vec("R10.1", "first:H'", first["H"], ref1["H"], "folded H (with H_factors)")
    ck.require(isinstance(first["n"], IntV) and eq(first["n"].e, h), "R10.5", "first:halves", f"first round must halve n (2h -> h), got {first['n']!r}", where)
    # --- generic round
    g = info["rounds"][0]
    h2 = g["h"]
    u1 = ssym("ch[u]#1.d0")
    ref2 = ref_round(h2, sfun("ra"), sfun("rb"), sfun("rG"), sfun("rH"), one, one, ssym("Q"), u1)
    post = g["post"]
    cmp_pt("R10.1", "generic:L", lists["L_vec"].info["generic"] if "L_vec" in lists else None, ref2["L"], "generic-round L")
    cmp_pt("R10.1", "generic:R", lists["R_vec"].info["generic"] if "R_vec" in lists else None, ref2["R"], "generic-round R")
    cmp_vec("R10.1", "generic:a'", post.get("a"), ref2["a"], "folded a")
    cmp_vec("R10.1", "generic:b'", post.get("b"), ref2["b"], "folded b")
    cmp_vec("R10.1", "generic:G'", post.get("G"), ref2["G"], "folded G")
    cmp_vec("R10.1", "generic:H'", post.get("H"), ref2["H"], "folded H")
    ck.require(isinstance(post.get("n"), IntV) and eq(post["n"].e, h2), "R10.5", "generic:halves", f"generic round must halve n, got {post.get('n')!r}", where)
    # loop runs while n != 1
    wc_ = g.get("cond")
    okc = hasattr(wc_, "e") and isinstance(wc_.e, Cond) and wc_.e.op == "eq" and wc_.e.neg and {str(sp.expand(wc_.e.a)), str(sp.expand(wc_.e.b))} == {"1", str(2 * h2)}
    ck.require(okc, "R10.5", "loop-until-1", f"the halving loop must run while n != 1, condition is {wc_!r}", g["where"])
    # --- R10.2 twin: first round == generic round under unit factors, and only differs by factors
    ref1_unit = ref_round(h, sfun("av"), sfun("bv"), sfun("Gv"), sfun("Hv"), one, one, ssym("Q"), u0)

    def unit(v):
        from .interp import subst_val

        class M(dict):
            pass

        return v

    # substitute gf,hf -> 1 in the extracted first round by evaluating against the unit reference
    import sympy

    def subst_unit_pt(p):
        return Pt([(n, b, (lambda j, s=s: sympy.sympify(s(j)).replace(lambda x: x.is_Function and x.func.__name__ in ("gf", "hf"), lambda x: sympy.Integer(1)))) for n, b, s in p.terms])

    got = first["L_vec"].index(sp.Integer(0)) if isinstance(first["L_vec"], Vec) and eq(first["L_vec"].length(), 1) else None
    ck.require(isinstance(got, Pt) and pt_eq(subst_unit_pt(got), ref1_unit["L"]), "R10.2", "twin:L", "first-round L with unit factors differs from the generic round's L", where)
    got = first["R_vec"].index(sp.Integer(0)) if isinstance(first["R_vec"], Vec) and eq(first["R_vec"].length(), 1) else None
    ck.require(isinstance(got, Pt) and pt_eq(subst_unit_pt(got), ref1_unit["R"]), "R10.2", "twin:R", "first-round R with unit factors differs from the generic round's R", where)
    # --- schedule of one round: L, R appended (plain), then u squeezed
    for name, tr_items in (("first", first_round_trace(A)), ("generic", g["trace"])):
        ops = round_ops(tr_items)
        ck.require(ops == [("append_message", b"L"), ("append_message", b"R"), ("challenge_bytes", b"u")], "R10.6", f"{name}:L-R-u", f"round must absorb L, R and then squeeze u; ops are {ops}", where)
    # --- result: a[0], b[0], L_vec/R_vec in round order
    ret = A["ret"]
    okr = isinstance(ret, Struct) and isinstance(ret.fields.get("a"), Sc) and str(ret.fields["a"].e) == "a_fin(0)" and str(ret.fields["b"].e) == "b_fin(0)"
    ck.require(okr, "R10.1", "result:a,b", f"final scalars must be a[0], b[0] of the fully folded vectors, got {ret!r}", where)
    lv, rv = (ret.fields.get("L_vec"), ret.fields.get("R_vec")) if isinstance(ret, Struct) else (None, None)
    okl = isinstance(lv, Opaque) and lv.what == "rounds-list" and isinstance(rv, Opaque) and rv.what == "rounds-list"
    ck.require(okl, "R10.5", "result:round-lists", "L_vec / R_vec must be the per-round pushes in round order", where)
    return A


def folding_step(ck, F, rule="R10.7"):
    """Inductive step of the folding theorem, checked on the *extracted* rounds:
        <a',G'> + <b',H'> + <a',b'> Q  ==  u^2 L + ( <a, gf o G> + <b, hf o H> + <a,b> Q ) + u^-2 R
    as an identity of formal sums over the independent bases G_j, G_{h+j}, H_j, H_{h+j}, Q (for symbolic half-length h).
    With it, by induction over the k rounds, the final (a, b) open the original statement against the fully folded
    generators; the verifier's s-vector form of that folding is R10.3."""
    A = analyse_create(F)
    info, h = A["info"], A["h"]
    where = FX.short(F.fn(P_CREATE)["sp"])
    pre = info.get("pre_while")
    if pre is None or not info["rounds"]:
        ck.fail(rule, "structure", "no rounds extracted", where)
        return
    retv = A["ret"]
    lists = {fld: retv.fields.get(fld) for fld in ("L_vec", "R_vec")} if isinstance(retv, Struct) else {}
    k = isym("_k")
    Q = ssym("Q")

    def stmt(hh, a_f, b_f, G_f, H_f, n_terms):
        """<a,G> + <b,H> + <a,b>Q for vectors given as Vec values of length n_terms*hh segments"""
        terms = []
        ab = sp.Integer(0)
        za = zip_vecs(a_f, G_f)
        for sg in za.nonempty_segs():
            terms += [(sg.n, (lambda j, sg=sg, ti=ti: sg.f(j).items[1].terms[ti][1](0)), (lambda j, sg=sg, ti=ti: sg.f(j).items[0].e * sg.f(j).items[1].terms[ti][2](0))) for ti in range(len(sg.f(isym("_p")).items[1].terms))]
        zb = zip_vecs(b_f, H_f)
        for sg in zb.nonempty_segs():
            terms += [(sg.n, (lambda j, sg=sg, ti=ti: sg.f(j).items[1].terms[ti][1](0)), (lambda j, sg=sg, ti=ti: sg.f(j).items[0].e * sg.f(j).items[1].terms[ti][2](0))) for ti in range(len(sg.f(isym("_p")).items[1].terms))]
        zab = zip_vecs(a_f, b_f)
        for sg in zab.nonempty_segs():
            kk = isym("_kk")
            ab += mk_sum(sg.n, sg.f(kk).items[0].e * sg.f(kk).items[1].e, kk)
        terms.append((sp.Integer(1), lambda j: Q, lambda j, ab=ab: ab))
        return Pt(terms)

    def scaled_bases(name, fac, hh):
        """2*hh bases split at hh (so that formal-sum keys line up with the halves the round works on)"""
        fam, ff = sfun(name), sfun(fac) if fac else None
        mk = lambda off: Seg(hh, lambda j, off=off: Pt([(sp.Integer(1), (lambda _: fam(off + j)), (lambda _: ff(off + j) if ff else sp.Integer(1)))]))
        return Vec([mk(sp.Integer(0)), mk(hh)])

    def halves(name, hh):
        f_ = sfun(name)
        return Vec([Seg(hh, lambda j: Sc(f_(j))), Seg(hh, lambda j: Sc(f_(hh + j)))])

    cases = []
    # first round: statement with factors on vectors of length 2h
    before1 = stmt(h, halves("av", h), halves("bv", h), scaled_bases("Gv", "gf", h), scaled_bases("Hv", "hf", h), 2)
    f = {kx: pick_then(pre.get(kx)) for kx in ("a", "b", "G", "H")}
    L1 = pick_then(lists["L_vec"].info["first"]) if isinstance(lists.get("L_vec"), Opaque) else None
    R1 = pick_then(lists["R_vec"].info["first"]) if isinstance(lists.get("R_vec"), Opaque) else None
    cases.append(("first", ssym("ch[u].d0"), before1, f, L1, R1))
    g = info["rounds"][0]
    h2 = g["h"]
    before2 = stmt(h2, halves("ra", h2), halves("rb", h2), scaled_bases("rG", None, h2), scaled_bases("rH", None, h2), 2)
    cases.append(("generic", ssym("ch[u]#1.d0"), before2, g["post"], g["post_lists"].get("L_vec") if "post_lists" in g else None, g["post_lists"].get("R_vec") if "post_lists" in g else None))
    for name, u, before, post, Lv, Rv in cases:
        try:
            ok_shapes = all(isinstance(post.get(kx), Vec) for kx in ("a", "b", "G", "H")) and isinstance(Lv, Vec) and isinstance(Rv, Vec) and eq(Lv.length(), 1) and eq(Rv.length(), 1)
            if not ok_shapes:
                ck.fail(rule, f"folding-step:{name}", "round outputs not available as vectors", where)
                continue
            after = stmt(None, post["a"], post["b"], post["G"], post["H"], 1)
            L, R = Lv.index(sp.Integer(0)), Rv.index(sp.Integer(0))
            rhs = L.scale(u**2).add(before).add(R.scale(u**-2))
            diff = after.add(rhs.neg())
            res = {kk_: v for kk_, v in diff.canon().items() if not eq(v, 0)}
            ck.require(not res, rule, f"folding-step:{name}", f"one {name} round does not preserve the opening statement: residual {[(kk_[0][:50], str(v)[:90]) for kk_, v in list(res.items())[:3]]}", where, detail="<a',G'>+<b',H'>+<a',b'>Q == u^2 L + P + u^-2 R as formal sums (symbolic half-length)")
        except Unanalysable as ue:
            ck.fail(rule, f"folding-step:{name}", f"unanalysable: {ue.msg}", where, kind="unanalysable")


def first_round_trace(A):
    """ops of the first-round branch: the alt item guarded by the n != 1 condition"""
    for it in A["trace"]:
        if it[0] == "alt":
            c = it[1]
            if isinstance(c, Cond) and c.op == "eq":
                return it[2] if c.neg else it[3]
    return []


# -- verifier side: u^2, u^-2, s ------------------------------------------------------------


def analyse_vs(F):
    key = (id(F), "vs")
    if key in _cache:
        return _cache[key]
    I = H.new_interp(F)
    lgL, lgR = isym("lg"), isym("lgR")
    proof = Struct(
        "inner_product_proof::InnerProductProof",
        {"L_vec": H.pt_vec("pf.L", lgL), "R_vec": H.pt_vec("pf.R", lgR), "a": Sc(ssym("pf.a")), "b": Sc(ssym("pf.b"))},
    )
    n = isym("N")
    tr = Tr("ipp")
    ret = I.call_fn(P_VS, [proof, IntV(n), tr])
    out = {"I": I, "ret": ret, "n": n, "lg": lgL, "trace": I.trace.items}
    _cache[key] = out
    return out


def check_vs(ck, F, rule="R10.3"):
    A = analyse_vs(F)
    I = A["I"]
    ck.fn(P_VS)
    where = FX.short(F.fn(P_VS)["sp"])
    lg, n = A["lg"], A["n"]
    ret = A["ret"]
    from .analyses import ok_payload

    val = ok_payload(ret)
    U = sfun("ch[u].d0")
    k = isym("_k")
    want_sq = Vec([Seg(lg, lambda j: Sc(U(j) ** 2))])
    want_inv = Vec([Seg(lg, lambda j: Sc(U(j) ** -2))])
    why = []
    ck.require(isinstance(val, Tup) and len(val.items) == 3 and vec_eq(val.items[0], want_sq, why), rule, "u_sq", f"first component must be [u_j^2]; {why}", where)
    why = []
    ck.require(isinstance(val, Tup) and len(val.items) == 3 and vec_eq(val.items[1], want_inv, why), rule, "u_inv_sq", f"second component must be [u_j^-2]; {why}", where)
    recs = list(I.recurrences)  # this run interprets verification_scalars only (helpers it calls included)
    ok = len(recs) == 1
    msg = f"expected one recurrence defining s, found {len(recs)}"
    if ok:
        r = recs[0]
        j = r["isym"]
        i = r["pos"]  # = j + 1
        lz = sfun("leading_zeros")
        lg_i = 31 - lz(i)
        S = sfun(r["name"])
        want = S(i - sfun("pow2")(lg_i)) * U(lg - 1 - lg_i) ** 2
        got = r["value"]
        pre = r["prefix"]
        from .alg import canon_sums, mk_prod

        allinv = mk_prod(lg, U(k) ** -1, k)
        ok_val = isinstance(got, Sc) and eq(got.e, want)
        ok_pre = isinstance(pre, Vec) and eq(pre.length(), 1) and eq(pre.index(sp.Integer(0)).e, allinv)
        ok_rng = eq(r["n"], n - 1) and eq(sp.expand(i - j), 1)
        d_ = r.get("doubling")
        if d_ is not None:
            # block-doubling spelling: outer round q in [0, lg), inner t in [0, 2^q), position i = 2^q + t.
            # floor(log2(2^q + t)) = q for 0 <= t < 2^q, so the reference recurrence reads s[i] = s[t] * u_(lg-1-q)^2
            q = d_["isym"]
            p2 = sfun("pow2")
            want_d = S(j) * U(lg - 1 - q) ** 2
            ok_val = isinstance(got, Sc) and eq(got.e, want_d)
            pre0 = d_["prefix"]
            ok_pre = isinstance(pre0, Vec) and eq(pre0.length(), 1) and eq(pre0.index(sp.Integer(0)).e, allinv)
            ok_rng = eq(d_["n"], lg) and eq(d_["off"], 0) and eq(r["n"], p2(q)) and eq(sp.expand(i - j), p2(q))
            pre = pre0
        ok = ok_val and ok_pre and ok_rng
        msg = f"s recurrence: s[0]={show(pre)} (want prod u_j^-1), s[i]={got!r} (want s[i-2^lg_i]*u_(lg_n-1-lg_i)^2 with lg_i=31-clz(i)), range n={r['n']}"
        ck.sample({"recurrence": f"s[{i}] = {sp.expand(got.e) if isinstance(got, Sc) else got}", "s[0]": show(pre)})
    ck.require(ok, rule, "s-recurrence", msg, where)
    third = val.items[2] if isinstance(val, Tup) and len(val.items) == 3 else None
    guard_n = any(it[0] == "guard" and isinstance(it[1], Cond) and it[1].op == "eq" and it[1].neg and {str(sp.expand(it[1].a)), str(sp.expand(it[1].b))} == {str(n), str(sfun("pow2")(lg))} for it in A["trace"])
    len_ok = isinstance(third, Vec) and (eq(third.length(), n) or (guard_n and eq(third.length(), sfun("pow2")(lg))))
    ck.require(len_ok, rule, "s-length", f"third component must be s with n entries, got {show(third) if isinstance(third, Vec) else third!r}", where)
    # guards: lg_n >= 32 ; n != 1<<lg_n ; len(R) != lg_n  (each -> Err(VerificationError))
    guards = [it for it in A["trace"] if it[0] == "guard"]
    keys = [g[1].key() for g in guards]
    want_guards = {
        "lg_n<32": lambda c: c.op == "lt" and c.neg and eq(c.a, lg) and eq(c.b, 32),
        "n==1<<lg_n": lambda c: c.op == "eq" and c.neg and {str(sp.expand(c.a)), str(sp.expand(c.b))} == {str(n), str(sfun("pow2")(lg))},
        "len(R_vec)==len(L_vec)": lambda c: c.op == "eq" and c.neg and {str(sp.expand(c.a)), str(sp.expand(c.b))} == {str(lg), "lgR"},
    }
    found = {}
    for name, pred in want_guards.items():
        hit = [g for g in guards if isinstance(g[1], Cond) and pred(g[1])]
        errok = hit and isinstance(hit[0][2], Enum) and hit[0][2].variant == "Err" and "VerificationError" in repr(hit[0][2])
        found[name] = bool(hit) and bool(errok)
    # guards precede the first transcript operation
    first_op = next((idx for idx, it in enumerate(A["trace"]) if it[0] in ("op", "star")), len(A["trace"]))
    early = all(A["trace"].index(g) < first_op for g in guards if any(pred(g[1]) for pred in want_guards.values() if isinstance(g[1], Cond)))
    A["guards_found"] = found
    A["guards_early"] = early
    return A

"""Symbolic term domain of the TERM engine.

Scalars are sympy expressions over atoms (free commutative ring normal form via expand);
integers (lengths, indices) are linear sympy expressions over non-negative integer atoms;
vectors are chains of segments (length term, element as a function of the relative index);
group elements are formal sums  sum_k  SUM_{j<len_k} scalar_k(j) * base_k(j).
No path conditions, no solver: equality is equality of normal forms.
"""
import itertools

import sympy as sp


class Unanalysable(Exception):
    """A construct outside the recognised fragment (reported as kind=unanalysable)."""

    def __init__(self, msg, where=""):
        super().__init__(msg)
        self.msg = msg
        self.where = where


_counter = itertools.count()


def fresh(prefix, **kw):
    return sp.Symbol(f"{prefix}#{next(_counter)}", **kw)


def isym(name):
    """non-negative integer atom (a length / count)"""
    return sp.Symbol(name, integer=True, nonnegative=True)


def ssym(name):
    """scalar (field element) atom"""
    return sp.Symbol(name)


def sfun(name):
    return sp.Function(name)


def norm(e):
    return sp.expand(e)


def canon_sums(e):
    """normal form for symbolic sums/products: ranges split at every additive part of the length
    (parts ordered by name: n1 < n2 < pad[..]), index-free factors pulled out"""
    e = sp.sympify(e)
    if not e.has(sp.Function("SUM")) and not e.has(sp.Function("PROD")):
        return e
    K = isym("_k")

    def fix(node):
        if node.is_Function and node.func.__name__ in ("SUM", "PROD"):
            n, body = node.args
            body = fix_all(body)
            n = sp.expand(n)
            parts = sorted(sp.Add.make_args(n), key=lambda t: str(t))
            mk = mk_sum if node.func.__name__ == "SUM" else mk_prod
            if len(parts) <= 1:
                return mk(n, body, K)
            out = sp.Integer(0) if node.func.__name__ == "SUM" else sp.Integer(1)
            off = sp.Integer(0)
            for p_ in parts:
                piece = mk(p_, sp.expand(body.xreplace({K: K + off})), K)
                out = out + piece if node.func.__name__ == "SUM" else out * piece
                off = off + p_
            return out
        return node

    def fix_all(x):
        if not x.args:
            return x
        new = x.func(*[fix_all(a) for a in x.args])
        return fix(new)

    return fix_all(e)


def eq(a, b):
    try:
        d = sp.expand(canon_sums(sp.expand(a - b)))
    except Exception:
        return False
    if d == 0:
        return True
    try:
        d2 = sp.expand(sp.powsimp(sp.expand_power_base(d, force=True), force=True))
        return d2 == 0
    except Exception:
        return False


# ---------------------------------------------------------------------------
# integer ordering oracle: all integer atoms are >= 0; optional upper bounds.


class Bounds:
    """Upper bounds for bound index symbols: sym -> exclusive upper bound expression."""

    def __init__(self):
        self.ub = {}
        self.facts = []  # list of (a, b) meaning a <= b, learned from guards that abort otherwise

    def with_ub(self, sym, ub):
        b = Bounds()
        b.ub = dict(self.ub)
        b.ub[sym] = ub
        b.facts = self.facts  # shared
        return b

    def add_le(self, a, b):
        self.facts.append((sp.expand(a), sp.expand(b)))


def _lin(e):
    """linear form -> (const, {atom: coeff}); atoms may be products/functions (treated as opaque >=0 ints)"""
    e = sp.expand(e)
    const = 0
    coeffs = {}
    for term in sp.Add.make_args(e):
        c, rest = term.as_coeff_Mul()
        if rest == 1:
            const += c
        else:
            coeffs[rest] = coeffs.get(rest, 0) + c
    return const, coeffs


def nonneg(e, bounds=None, depth=0):
    """Prove e >= 0 from: every atom >= 0, bound index symbols < their ub. Sound, incomplete."""
    const, coeffs = _lin(e)
    if not all(c.is_number for c in list(coeffs.values()) + [sp.Integer(const)]):
        return False
    if all(c >= 0 for c in coeffs.values()) and const >= 0:
        return True
    # 2^x >= 1: a positively weighted power of two may be replaced by its lower bound
    for a, c in coeffs.items():
        if c > 0 and getattr(a, "func", None) is not None and getattr(a.func, "__name__", "") == "pow2" and depth <= 6:
            if nonneg(sp.expand(e - c * a + c), bounds, depth + 1):
                return True
            break
    if bounds is None or depth > 6:
        return False
    # use guard facts a <= b: e >= 0 follows from e - (b - a) >= 0
    if depth <= 3:
        for fa, fb in bounds.facts:
            d = sp.expand(fb - fa)
            if d == 0:
                continue
            if nonneg(sp.expand(e - d), bounds, depth + 2):
                return True
    if all(c >= 0 for c in coeffs.values()):
        return False
    # substitute an upper bound for a negatively weighted bounded symbol: s <= ub-1
    for a, c in coeffs.items():
        if c < 0 and a in bounds.ub:
            e2 = sp.expand(e - c * a + c * (bounds.ub[a] - 1))
            return nonneg(e2, bounds, depth + 1)
    return False


def le(a, b, bounds=None):
    return nonneg(b - a, bounds)


def lt(a, b, bounds=None):
    return nonneg(b - a - 1, bounds)


# ---------------------------------------------------------------------------
# values


class Val:
    pass


class Sc(Val):
    """field element"""

    def __init__(self, e):
        self.e = sp.sympify(e)

    def __repr__(self):
        return f"Sc({self.e})"


class IntV(Val):
    """machine integer (usize/u32/u64): linear term"""

    def __init__(self, e):
        self.e = sp.sympify(e)

    def __repr__(self):
        return f"Int({self.e})"


class BoolV(Val):
    def __init__(self, e):
        self.e = e  # python bool or Cond

    def __repr__(self):
        return f"Bool({self.e})"


class Cond:
    """normalised comparison atom: op in {lt, le, eq, ne, iszero, other}"""

    def __init__(self, op, a=None, b=None, neg=False, text=""):
        self.op, self.a, self.b, self.neg, self.text = op, a, b, neg, text

    def negate(self):
        c = Cond(self.op, self.a, self.b, not self.neg, self.text)
        for k in ("subject", "pts", "parts"):
            if hasattr(self, k):
                setattr(c, k, getattr(self, k))
        return c

    def key(self):
        return f"{'!' if self.neg else ''}{self.op}({self.a},{self.b}){self.text}"

    def __repr__(self):
        return self.key()


class Pt(Val):
    """group element: formal sum. terms = list of (len, base_fn(j)->sympy atom, scalar_fn(j)->sympy expr)
    len == 1 with constant fns for single terms."""

    def __init__(self, terms=None):
        self.terms = terms or []

    @staticmethod
    def atom(sym):
        return Pt([(sp.Integer(1), (lambda j, s=sym: s), (lambda j: sp.Integer(1)))])

    def scale(self, k):
        return Pt([(n, b, (lambda j, s=s, k=k: s(j) * k)) for (n, b, s) in self.terms])

    def add(self, o):
        return Pt(self.terms + o.terms)

    def neg(self):
        return self.scale(-1)

    def canon(self):
        """dict: (base repr at symbolic j, len) -> summed scalar expr at j"""
        j = isym("_j")
        out = {}
        terms = [(sp.expand(n), b, s) for n, b, s in self.terms if n != 0]
        # a single element that continues a longer run at its front or its end is merged into it
        # ([x_0] ++ [x_1 .. x_{n-1}]  ==  [x_0 .. x_{n-1}]): the partition into segments is not part of the value
        changed = True
        while changed:
            changed = False
            for i1, (n1, b1, s1) in enumerate(terms):
                if n1 != 1:
                    continue
                for i2, (n2, b2, s2) in enumerate(terms):
                    if i2 == i1 or n2 == 1 and i2 < i1:
                        continue
                    try:
                        if sp.expand(b2(sp.Integer(0)) - b2(sp.Integer(1))) == 0:
                            continue  # not an indexed family (a single fixed base): nothing to extend
                        front = sp.expand(b2(sp.Integer(-1)) - b1(sp.Integer(0))) == 0 and sp.expand(s2(sp.Integer(-1)) - s1(sp.Integer(0))) == 0
                        back = not front and sp.expand(b2(n2) - b1(sp.Integer(0))) == 0 and sp.expand(s2(n2) - s1(sp.Integer(0))) == 0
                    except Exception:
                        front = back = False
                    if front:
                        merged = (sp.expand(n2 + 1), (lambda t, b2=b2: b2(t - 1)), (lambda t, s2=s2: s2(t - 1)))
                    elif back:
                        merged = (sp.expand(n2 + 1), b2, s2)
                    else:
                        continue
                    terms = [t_ for k_, t_ in enumerate(terms) if k_ not in (i1, i2)] + [merged]
                    changed = True
                    break
                if changed:
                    break
        for n, b, s in terms:
            key = (sp.srepr(b(j)), sp.srepr(sp.expand(n)))
            out[key] = sp.expand(out.get(key, 0) + s(j))
        return {k: v for k, v in out.items() if v != 0}

    def __repr__(self):
        j = isym("_j")
        return "Pt(" + " + ".join(f"SUM[{n}]({sp.expand(s(j))})*{b(j)}" for n, b, s in self.terms) + ")"


def pt_eq(a, b):
    ca, cb = a.canon(), b.canon()
    if set(ca) != set(cb):
        return False
    return all(eq(ca[k], cb[k]) for k in ca)


class Tup(Val):
    def __init__(self, items):
        self.items = list(items)

    def __repr__(self):
        return f"Tup{self.items}"


class Struct(Val):
    def __init__(self, path, fields):
        self.path = path
        self.fields = dict(fields)

    def __repr__(self):
        return f"{self.path}{{{', '.join(self.fields)}}}"


class Enum(Val):
    """concrete enum value: variant path + payload list"""

    def __init__(self, path, variant, payload=()):
        self.path, self.variant, self.payload = path, variant, list(payload)

    def __repr__(self):
        return f"{self.variant}({', '.join(map(repr, self.payload))})"


class Ite(Val):
    def __init__(self, cond, a, b):
        self.cond, self.a, self.b = cond, a, b

    def __repr__(self):
        return f"ite({self.cond},{self.a},{self.b})"


class Opaque(Val):
    """a value the analysis does not interpret (only passed around)"""

    def __init__(self, what, **info):
        self.what = what
        self.info = info

    def __repr__(self):
        return f"Opaque({self.what})"


class Bytes(Val):
    """byte string under construction: list of parts (kind, value)"""

    def __init__(self, parts=None):
        self.parts = list(parts or [])

    def __repr__(self):
        return f"Bytes{self.parts}"


class Closure(Val):
    def __init__(self, node, env, interp_ctx):
        self.node, self.env, self.ctx = node, env, interp_ctx


class Ref(Val):
    """mutable place reference: get()/set()"""

    def __init__(self, getter, setter, desc="", root_id=None):
        self.get, self.set, self.desc = getter, setter, desc
        self.root_id = root_id

    def __repr__(self):
        return f"Ref({self.desc})"


class Seg:
    def __init__(self, n, f):
        self.n = sp.sympify(n)
        self.f = f  # j (sympy int expr, relative index) -> Val


class Vec(Val):
    def __init__(self, segs=None, kind="vec"):
        self.segs = [s for s in (segs or [])]
        self.kind = kind

    def length(self):
        return sp.expand(sum((s.n for s in self.segs), sp.Integer(0)))

    @staticmethod
    def atom(name, n, mk=None):
        f = sp.Function(name)
        mk = mk or (lambda e: Sc(e))
        return Vec([Seg(n, lambda j, f=f, mk=mk: mk(f(j)))])

    @staticmethod
    def const(v, n):
        return Vec([Seg(n, lambda j, v=v: v)])

    @staticmethod
    def lit(items):
        return Vec([Seg(1, (lambda j, v=v: v)) for v in items])

    def map(self, fn):
        return Vec([Seg(s.n, (lambda j, s=s: fn(s.f(j)))) for s in self.segs])

    def map_indexed(self, fn):
        """fn(absolute index, value)"""
        out = []
        off = sp.Integer(0)
        for s in self.segs:
            out.append(Seg(s.n, (lambda j, s=s, off=off: fn(off + j, s.f(j)))))
            off = off + s.n
        return Vec(out)

    def concat(self, o):
        return Vec(self.segs + o.segs)

    def nonempty_segs(self):
        return [s for s in self.segs if sp.expand(s.n) != 0]

    def breakpoints(self):
        bps = [sp.Integer(0)]
        for s in self.segs:
            bps.append(sp.expand(bps[-1] + s.n))
        return bps

    def split_at(self, k, bounds=None):
        """(prefix of length k, rest); k must be orderable against the breakpoints"""
        k = sp.expand(k)
        pre, post = [], []
        off = sp.Integer(0)
        for s in self.segs:
            end = sp.expand(off + s.n)
            if le(end, k, bounds):
                pre.append(s)
            elif le(k, off, bounds):
                post.append(s)
            else:
                # k strictly inside (or not provably outside): need off <= k <= end
                if not (le(off, k, bounds) and le(k, end, bounds)):
                    raise Unanalysable(f"cannot order split point {k} against segment [{off},{end})")
                a = sp.expand(k - off)
                pre.append(Seg(a, s.f))
                post.append(Seg(sp.expand(s.n - a), (lambda j, s=s, a=a: s.f(a + j))))
            off = end
        return Vec(pre), Vec(post)

    def take(self, k, bounds=None):
        total = self.length()
        if le(total, k, bounds):
            return Vec(self.segs)
        if not le(k, total, bounds):
            raise Unanalysable(f"take({k}) of vector of length {total}: cannot order")
        return self.split_at(k, bounds)[0]

    def skip(self, k, bounds=None):
        total = self.length()
        if le(total, k, bounds):
            return Vec([])
        return self.split_at(k, bounds)[1]

    def slice(self, lo, hi, bounds=None):
        total = self.length()
        if not (le(lo, hi, bounds) and le(hi, total, bounds)):
            raise Unanalysable(f"slice [{lo}..{hi}) of vector of length {total}: bounds not provable")
        return self.split_at(hi, bounds)[0].split_at(lo, bounds)[1]

    def rev(self):
        total = self.length()
        out = []
        for s in reversed(self.segs):
            out.append(Seg(s.n, (lambda j, s=s: s.f(s.n - 1 - j))))
        return Vec(out)

    def index(self, i, bounds=None):
        i = sp.expand(i)
        off = sp.Integer(0)
        segs = self.nonempty_segs()
        for s in segs:
            end = sp.expand(off + s.n)
            if le(off, i, bounds) and lt(i, end, bounds):
                return s.f(sp.expand(i - off))
            off = end
        if len(segs) == 1:
            # single segment: element function is total; in-range-ness is a PANIC concern
            return segs[0].f(i)
        u_ = Unanalysable(f"index {i} cannot be located in vector with breakpoints {self.breakpoints()}")
        u_.vec = self
        raise u_

    def set_index(self, i, v, bounds=None):
        """functional update of one position (used for constant positions)"""
        pre, rest = self.split_at(i, bounds)
        one, post = rest.split_at(1, bounds)
        return Vec(pre.segs + [Seg(1, lambda j, v=v: v)] + post.segs)


def zip_vecs(a, b, bounds=None):
    """refine to common breakpoints; length = min (must be orderable)"""
    la, lb = a.length(), b.length()
    if le(la, lb, bounds):
        b = b.take(la, bounds)
    elif le(lb, la, bounds):
        a = a.take(lb, bounds)
    else:
        raise Unanalysable(f"zip of lengths {la} and {lb}: cannot order")
    out = []
    sa = [Seg(s.n, s.f) for s in a.nonempty_segs()]
    sb = [Seg(s.n, s.f) for s in b.nonempty_segs()]
    ia = ib = 0
    while ia < len(sa) and ib < len(sb):
        x, y = sa[ia], sb[ib]
        if sp.expand(x.n - y.n) == 0:
            out.append(Seg(x.n, (lambda j, x=x, y=y: Tup([x.f(j), y.f(j)]))))
            ia += 1
            ib += 1
        elif le(x.n, y.n, bounds):
            out.append(Seg(x.n, (lambda j, x=x, y=y: Tup([x.f(j), y.f(j)]))))
            sb[ib] = Seg(sp.expand(y.n - x.n), (lambda j, y=y, k=x.n: y.f(k + j)))
            ia += 1
        elif le(y.n, x.n, bounds):
            out.append(Seg(y.n, (lambda j, x=x, y=y: Tup([x.f(j), y.f(j)]))))
            sa[ia] = Seg(sp.expand(x.n - y.n), (lambda j, x=x, k=y.n: x.f(k + j)))
            ib += 1
        else:
            raise Unanalysable(f"zip: cannot order segment lengths {x.n} and {y.n}")
    return Vec(out)


# ---------------------------------------------------------------------------
# structural equality of values (at a symbolic index)


def val_eq(a, b):
    if isinstance(a, Sc) and isinstance(b, Sc):
        return eq(a.e, b.e)
    if isinstance(a, IntV) and isinstance(b, IntV):
        return eq(a.e, b.e)
    if isinstance(a, Pt) and isinstance(b, Pt):
        return pt_eq(a, b)
    if isinstance(a, Tup) and isinstance(b, Tup):
        return len(a.items) == len(b.items) and all(val_eq(x, y) for x, y in zip(a.items, b.items))
    if isinstance(a, Enum) and isinstance(b, Enum):
        return a.variant == b.variant and len(a.payload) == len(b.payload) and all(val_eq(x, y) for x, y in zip(a.payload, b.payload))
    if isinstance(a, Vec) and isinstance(b, Vec):
        return vec_eq(a, b)
    if isinstance(a, Ite) and isinstance(b, Ite):
        return a.cond.key() == b.cond.key() and val_eq(a.a, b.a) and val_eq(a.b, b.b)
    if isinstance(a, Opaque) and isinstance(b, Opaque):
        return a.what == b.what
    return False


def normalize_vec(v):
    """merge adjacent segments that continue the same element function"""
    segs = v.nonempty_segs()
    out = []
    j = isym("_j")
    for s in segs:
        if out:
            p = out[-1]
            try:
                if val_eq(p.f(p.n + j), s.f(j)):
                    out[-1] = Seg(sp.expand(p.n + s.n), p.f)
                    continue
            except Unanalysable:
                pass
        out.append(s)
    return Vec(out, v.kind)


def vec_eq(a, b, why=None):
    a, b = normalize_vec(a), normalize_vec(b)
    if not eq(a.length(), b.length()):
        if why is not None:
            why.append(f"lengths differ: {a.length()} vs {b.length()}")
        return False
    try:
        z = zip_vecs(a, b)
    except Unanalysable as e:
        if why is not None:
            why.append(f"segment layouts not comparable: {e.msg}")
        return False
    j = isym("_j")
    off = sp.Integer(0)
    for s in z.segs:
        if sp.sympify(s.n).is_number and int(s.n) <= 32:
            bad = None
            for c in range(int(s.n)):
                t = s.f(sp.Integer(c))
                if not val_eq(t.items[0], t.items[1]):
                    bad = t
                    break
            if bad is not None:
                if why is not None:
                    why.append(f"position {off}+{c}: {show(bad.items[0])}  !=  {show(bad.items[1])}")
                return False
            off = sp.expand(off + s.n)
            continue
        t = s.f(j)
        if not val_eq(t.items[0], t.items[1]):
            if why is not None:
                why.append(f"segment at offset {off} (len {s.n}): {show(t.items[0])}  !=  {show(t.items[1])}")
            return False
        off = sp.expand(off + s.n)
    return True


def show(v, j=None):
    j = j or isym("_j")
    if isinstance(v, Sc):
        return str(sp.expand(v.e))
    if isinstance(v, IntV):
        return str(sp.expand(v.e))
    if isinstance(v, Vec):
        return "[" + " | ".join(f"{s.n}: {show(s.f(j))}" for s in normalize_vec(v).segs) + "]"
    if isinstance(v, Tup):
        return "(" + ", ".join(show(x) for x in v.items) + ")"
    return repr(v)


def mk_sum(n, body, k):
    """canonical symbolic sum  SUM_{k<n} body(k): linear splitting, k-free factors pulled out"""
    n = sp.expand(n)
    body = sp.expand(body)
    if n == 0 or body == 0:
        return sp.Integer(0)
    K = isym("_k")
    out = 0
    for term in sp.Add.make_args(body):
        free, dep = [], []
        for f in sp.Mul.make_args(term):
            (dep if f.has(k) else free).append(f)
        if not dep:
            out += sp.Mul(*free) * n
        else:
            out += sp.Mul(*free) * sfun("SUM")(n, sp.Mul(*dep).xreplace({k: K}))
    return out




def mk_prod(n, body, k):
    """canonical symbolic product PROD_{k<n} body(k); k-free factors become powers"""
    n = sp.expand(n)
    if n == 0:
        return sp.Integer(1)
    K = isym("_k")
    body = sp.factor_terms(body)
    out = sp.Integer(1)
    for f in sp.Mul.make_args(body):
        if f.has(k):
            out *= sfun("PROD")(n, f.xreplace({k: K}))
        else:
            out *= f**n
    return out

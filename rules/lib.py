"""Models of the std / arkworks / merlin functions the crate calls (transfer functions of TERM).

Every model is keyed by the *resolved* def path.  A callee that is neither crate-local
(inlined) nor listed here makes the analysis fail with kind=unanalysable.
"""
import sympy as sp

from . import facts as FX
from .alg import (
    BoolV,
    Bytes,
    Closure,
    Cond,
    Enum,
    IntV,
    Ite,
    Opaque,
    Pt,
    Ref,
    Sc,
    Seg,
    Struct,
    Tup,
    Unanalysable,
    Val,
    Vec,
    eq,
    fresh,
    isym,
    le,
    lt,
    sfun,
    ssym,
    val_eq,
    zip_vecs,
    mk_sum,
    mk_prod,
)
from .interp import UNIT, HashV, IterV, MutSlot, UserIter, RngBuilder, RngV, Tr, subst_val, slog

MODELS = {}


def model(*suffixes, places=()):
    def deco(f):
        for s in suffixes:
            MODELS[FX.norm_paths(s)] = (f, set(places))
        return f

    return deco


def is_scalar_ty(ty):
    return ty == "F" or "ScalarField" in ty or ty.startswith("ark_ff::Fp<") or ty == "S"


def is_point_ty(ty):
    if is_scalar_ty(ty):
        return False
    return ty == "G" or ty.endswith("::Group") or "::Affine<" in ty or "Projective" in ty


def find_model(path):
    if path in MODELS:
        return MODELS[path]
    best = None
    for suf, m in MODELS.items():
        if path.endswith(suf) and (best is None or len(suf) > len(best[0])):
            best = (suf, m)
    return best[1] if best else None


def call(I, e, env):
    ci = FX.callee_info(e)
    # macro expansions that build vectors
    expn = e.get("expn", "")
    if expn == "Bang:vec":
        return vec_macro(I, e, env)
    if e["k"] == "Call" and not ci:
        # indirect call (closure / fn pointer / dyn Fn value)
        fval = I.ev(e["f"], env)
        args = [I.ev_raw(a, env) for a in e["args"]]
        if isinstance(fval, Closure):
            return I.apply_closure(fval, [I.deref(a) for a in args])
        hook = I.hooks.get("indirect")
        if hook:
            return hook(I, fval, args, e, env)
        raise Unanalysable(f"indirect call of {fval!r}", FX.short(e.get("sp")))
    path = ci.get("resolved") or ci.get("path")
    if path is None:
        raise Unanalysable("unresolved callee", FX.short(e.get("sp")))
    if e["k"] == "Call" and ci.get("dk", "").startswith("Ctor"):
        args = [I.ev(a, env) for a in e["args"]]
        variant = path.split("::")[-1]
        if ci.get("dk", "").startswith("Ctor(Struct"):
            return Struct(ci.get("ctor_of", path), {str(i): a for i, a in enumerate(args)})
        return Enum(ci.get("ctor_of", path), variant, args)
    arg_nodes = FX.call_args(e) if e["k"] in ("Call", "MethodCall") else []
    return call_path(I, path, None, e, env, arg_nodes, ci)


def eval_args(I, arg_nodes, env, place_idx, param_tys=None):
    out = []
    for i, a in enumerate(arg_nodes):
        want_place = i in place_idx or (param_tys is not None and i < len(param_tys) and param_tys[i].startswith("&mut "))
        if want_place:
            b_ = a
            while b_["k"] in ("AddrOf", "Unary") and "e" in b_:
                b_ = b_["e"]
            if b_["k"] == "Path" and b_["res"].get("k") == "Local" and (b_.get("ty") or "").startswith("&mut ") and isinstance(env.get(b_["res"]["id"]), (Sc, IntV, Pt)):
                # a local of type &mut T that holds a plain value lost its referent on the way: a write through it would vanish
                raise Unanalysable("place behind a mutable reference is not tracked", FX.short(a.get("sp")))
            out.append(I.place(a, env))
        else:
            out.append(I.ev(a, env))
    return out


def call_path(I, path, args, e, env, arg_nodes=None, ci=None):
    ci = ci or {}
    node = e or {}
    hook = I.hooks.get(path)
    if hook is None and path in I.F.fns:
        hook = I.hooks_canon.get(FX.canon_path(path))
    local = path in I.F.fns
    if hook is not None:
        if args is None:
            ptys = [p["ty"] for p in I.F.fns[path]["params"]] if local else None
            args = eval_args(I, arg_nodes, env, (), ptys)
        return hook(I, args, node)
    if local:
        fn = I.F.fns[path]
        if args is None:
            ptys = [p["ty"] for p in fn["params"]]
            args = eval_args(I, arg_nodes, env, (), ptys)
        return I.call_fn(path, args, node)
    m = find_model(path)
    if m is None and ci.get("path"):
        m = find_model(ci["path"])
    if m is None and ci.get("trait") and (ci.get("local") or str(ci.get("trait")).split("::")[0] in ("r1cs", "util", "generators", "transcript", "inner_product_proof", "errors")):
        # a method of one of the crate's own traits called on a generic `Self`: dispatch on the receiver's concrete type
        if args is None:
            args = eval_args(I, arg_nodes, env, ())
        recv = I.deref(args[0]) if args else None
        tname = path.split("::")[-1]
        if isinstance(recv, Struct):
            import re as _re

            rx = _re.compile(r"<" + _re.escape(recv.path) + r"(<.*>)? as " + _re.escape(str(ci["trait"])) + r"(<.*>)?>::" + _re.escape(tname) + r"$")
            hits = [p_ for p_ in I.F.fns if rx.match(p_)]
            if len(hits) == 1:
                ptys = [p_["ty"] for p_ in I.F.fns[hits[0]]["params"]]
                args2 = eval_args(I, arg_nodes, env, (), ptys) if arg_nodes is not None else args
                return I.call_fn(hits[0], args2, node)
            # a provided (default) method of the trait itself
            dflt = [p_ for p_ in I.F.fns if p_ == path]
            if dflt:
                return I.call_fn(dflt[0], args, node)
    if m is None:
        raise Unanalysable(f"no model for callee {path}", FX.short(node.get("sp")))
    f, places = m
    if args is None:
        args = eval_args(I, arg_nodes, env, places)
    if args and path.split("::")[-1] in ("ok", "err", "is_ok", "is_err", "is_some", "is_none", "unwrap_or", "unwrap_or_else", "unwrap_or_default", "or", "or_else", "map_or", "map_or_else", "iter", "into_iter") and ("Result" in path or "Option" in path):
        a0 = args[0] if not isinstance(args[0], Ref) else I.deref(args[0])
        I.refuse_handled_failure(a0, f"absorbed by `{path.split('::')[-1]}`", FX.short(node.get("sp")))
    if not places and not any(isinstance(x, Ref) for x in args) and any(isinstance(x, Ite) and isinstance(x.a, IntV) and isinstance(x.b, IntV) for x in args):
        # numeric models are lifted over conditional arguments
        return I.ite_lift(lambda *xs: f(I, list(xs), node, ci), *args)
    return f(I, args, node, ci)


def vec_macro(I, e, env):
    # vec![x; n] -> from_elem(x, n);  vec![a, b, ..] -> boxed array;  vec![] -> Vec::new()
    ci = FX.callee_info(e)
    p = ci.get("path", "")
    if p.endswith("from_elem"):
        x = I.ev(e["args"][0], env)
        n = I.ev(e["args"][1], env)
        log_alloc(I, n.e, e)
        return Vec.const(x, n.e)
    for n in FX.walk(e):
        if n["k"] == "Array":
            return Vec.lit([I.ev(x, env) for x in n["es"]])
    return Vec([])


# ---------------------------------------------------------------------------
# sums


# ---------------------------------------------------------------------------
# scalars / points


@model("ark_ff::Zero::zero", "ark_ec::AffineRepr::zero")
def m_zero(I, a, e, ci):
    ty = e.get("ty", "")
    if is_scalar_ty(ty):
        return Sc(0)
    if is_point_ty(ty):
        return Pt([])
    raise Unanalysable(f"zero() of type {ty}")


@model("ark_ff::One::one")
def m_one(I, a, e, ci):
    return Sc(1)


@model("ark_ff::Field::inverse")
def m_inverse(I, a, e, ci):
    x = a[0]
    if not isinstance(x, Sc):
        raise Unanalysable(f"inverse of {x!r}")
    I.asserts.append(("inverse", x.e, FX.short(e.get("sp"))))
    is_chal = x.e.is_Symbol and str(x.e).startswith("ch[") or (x.e.is_Function and str(x.e.func).startswith("ch["))
    slog(I, "inverse", e, is_chal, f"inverse of {x.e}" + (" (a transcript challenge: zero with probability 2^-250)" if is_chal else ""))
    return Enum("Option", "Some", [Sc(x.e**-1)])


LC_ADT = "r1cs::linear_combination::LinearCombination"


def _local_impl(I, rx):
    """the crate's own impl method whose def path matches the pattern (type-parameter names are free)"""
    import re as _re

    hits = [p for p in I.F.fns if _re.fullmatch(rx, p)]
    return hits[0] if len(hits) == 1 else None


_LC_RX = r"<r1cs::linear_combination::LinearCombination<\w+> as "


@model("std::convert::Into::into")
def m_into(I, a, e, ci):
    """`x.into()` is the identity unless the target type is the crate's LinearCombination and x is not one yet: then it is
    the crate's own `From<Variable>` / `From<F>` (std's blanket `Into` impl), which is interpreted"""
    v = I.deref(a[0])
    ty = e.get("ty") or ""
    if ty.startswith(LC_ADT) and not (isinstance(v, Struct) and v.path == LC_ADT):
        src = r"\w+" if isinstance(v, Sc) else r"r1cs::linear_combination::Variable<\w+>"
        p = _local_impl(I, _LC_RX + r"std::convert::From<" + src + r">>::from")
        if p is None:
            raise Unanalysable(f"into() LinearCombination from {v!r}: no local From impl found", FX.short(e.get("sp")))
        return I.call_fn(p, [v], e)
    return a[0]


@model("ark_ff::PrimeField::into_bigint", "ark_ec::CurveGroup::into_affine", "ark_ec::AffineRepr::into_group", "std::boxed::Box::<T>::new", "std::vec::Vec::<T, A>::as_slice", "std::borrow::Borrow::borrow")
def m_id(I, a, e, ci):
    return a[0]


@model("ark_ec::AffineRepr::mul_bigint")
def m_mul_bigint(I, a, e, ci):
    p, s = a
    if isinstance(p, Pt) and isinstance(s, Sc):
        return p.scale(s.e)
    raise Unanalysable(f"mul_bigint({p!r},{s!r})")


@model("ark_ec::AffineRepr::generator")
def m_generator(I, a, e, ci):
    return Pt.atom(ssym("GENERATOR"))


@model("ark_ff::Zero::is_zero", "ark_ec::AffineRepr::is_zero")
def m_is_zero(I, a, e, ci):
    x = a[0]
    c = Cond("iszero", text=repr(x))
    c.subject = x
    return BoolV(c)


@model("std::ops::Neg::neg")
def m_neg(I, a, e, ci):
    return I.neg(a[0])


@model("std::ops::Add::add")
def m_add(I, a, e, ci):
    return I.binop("+", a[0], a[1], e)


@model("std::ops::Sub::sub")
def m_sub(I, a, e, ci):
    return I.binop("-", a[0], a[1], e)


@model("std::ops::Mul::mul")
def m_mul(I, a, e, ci):
    return I.binop("*", a[0], a[1], e)


@model("std::cmp::PartialEq::eq")
def m_eq(I, a, e, ci):
    return I.binop("==", a[0], a[1], e)


@model("std::ops::MulAssign::mul_assign", places=(0,))
def m_mul_assign(I, a, e, ci):
    a[0].set(I.binop("*", a[0].get(), a[1], e))
    return UNIT


@model("std::ops::AddAssign::add_assign", places=(0,))
def m_add_assign(I, a, e, ci):
    a[0].set(I.binop("+", a[0].get(), a[1], e))
    return UNIT


@model("std::ops::SubAssign::sub_assign", places=(0,))
def m_sub_assign(I, a, e, ci):
    a[0].set(I.binop("-", a[0].get(), a[1], e))
    return UNIT


@model("ark_ff::UniformRand::rand")
def m_rand(I, a, e, ci):
    rng = I.deref(a[0])
    if not isinstance(rng, RngV):
        raise Unanalysable(f"rand() on {rng!r}")
    ty = e.get("ty", "")
    k = rng.draws
    rng.draws += 1
    idx = [lc["isym"] for lc in I.loop_ctx if lc.get("isym") is not None] + [m for m in getattr(I, "map_ctx", [])]
    name = f"{rng.name}.d{k}"
    where = FX.short(e.get("sp"))
    if is_point_ty(ty):
        atom = sfun("P:" + name)(*idx) if idx else ssym("P:" + name)
        I.draw_log.append({"rng": rng, "atom": atom, "kind": "point", "idx": list(idx), "where": where, "fn": I.fn_stack[-1] if I.fn_stack else ""})
        return Pt.atom(atom)
    if is_scalar_ty(ty):
        atom = sfun(name)(*idx) if idx else ssym(name)
        I.draw_log.append({"rng": rng, "atom": atom, "kind": "scalar", "idx": list(idx), "where": where, "fn": I.fn_stack[-1] if I.fn_stack else ""})
        return Sc(atom)
    raise Unanalysable(f"rand() of type {ty}")


@model("ark_ff::batch_inversion", places=(0,))
def m_batch_inv(I, a, e, ci):
    v = I.deref(a[0].get())
    a[0].set(v.map(lambda x: Sc(x.e**-1)))
    return UNIT


def pt_terms_of_segment(seg, base_of, scalar_of):
    """expand a zipped (base, scalar) segment into formal-sum terms"""
    j0 = isym("_probe")
    probe = base_of(seg.f(j0))
    terms = []
    for ti in range(len(probe.terms)):
        n1, _, _ = probe.terms[ti]
        if n1 != 1:
            raise Unanalysable("msm base element is itself a symbolic sum")

        def b(jj, ti=ti):
            return base_of(seg.f(jj)).terms[ti][1](0)

        def s(jj, ti=ti):
            return base_of(seg.f(jj)).terms[ti][2](0) * scalar_of(seg.f(jj))

        terms.append((seg.n, b, s))
    return terms


@model("ark_ec::VariableBaseMSM::msm")
def m_msm(I, a, e, ci):
    bases, scalars = I.deref(a[0]), I.deref(a[1])
    if isinstance(bases, IterV):
        bases = bases.vec
    if isinstance(scalars, IterV):
        scalars = scalars.vec
    if not (isinstance(bases, Vec) and isinstance(scalars, Vec)):
        raise Unanalysable(f"msm({bases!r},{scalars!r})")
    lb, ls = bases.length(), scalars.length()
    equal = eq(lb, ls) or (le(lb, ls, I.bounds) and le(ls, lb, I.bounds))
    slog(I, "msm", e, equal, f"msm over {lb} bases and {ls} scalars")
    I.msm_log.append({"where": FX.short(e.get("sp")), "fn": I.fn_stack[-1] if I.fn_stack else "", "len_bases": lb, "len_scalars": ls, "equal": equal, "bases": bases, "scalars": scalars})
    if not equal:
        # msm returns Err on unequal lengths (ark-ec 0.4.2); the value is not used by any sink rule
        return Ite(Cond("other", text=f"len_eq({lb},{ls})"), Enum("Result", "Ok", [Opaque("msm-unequal")]), Enum("Result", "Err", [Opaque("msm-len")]))
    z = zip_vecs(bases, scalars, I.bounds)
    terms = []
    for s in z.nonempty_segs():
        terms += pt_terms_of_segment(s, lambda t: as_pt(t.items[0]), lambda t: as_sc(t.items[1]).e)
    return Enum("Result", "Ok", [Pt(terms)])


def as_pt(v):
    if isinstance(v, Pt):
        return v
    raise Unanalysable(f"expected a group element, got {v!r}")


def as_sc(v):
    if isinstance(v, Sc):
        return v
    if isinstance(v, Ite) and isinstance(v.a, (Sc, Ite)) and isinstance(v.b, (Sc, Ite)):
        # conditional scalar inside a sum: kept as an opaque ITE atom (comparisons with references fail exactly there)
        return Sc(sfun("ITE")(sp.Symbol(v.cond.key()), as_sc(v.a).e, as_sc(v.b).e))
    raise Unanalysable(f"expected a scalar, got {v!r}")


# ---------------------------------------------------------------------------
# Option / Result


@model("std::option::Option::<T>::unwrap", "std::result::Result::<T, E>::unwrap", "std::result::Result::<T, E>::expect", "std::option::Option::<T>::expect")
def m_unwrap(I, a, e, ci):
    v = a[0]
    if isinstance(v, Enum) and v.variant in ("Some", "Ok"):
        slog(I, "unwrap", e, True, "value is Some/Ok on every path")
        return v.payload[0] if v.payload else UNIT
    if isinstance(v, Ite):
        for good in (v.a, v.b):
            if isinstance(good, Enum) and good.variant in ("Some", "Ok"):
                I.asserts.append(("unwrap-conditional", v.cond, FX.short(e.get("sp"))))
                slog(I, "unwrap", e, False, f"unwrap of a value that is Err/None when {v.cond if good is v.b else v.cond.negate()}")
                return good.payload[0] if good.payload else UNIT
    if isinstance(v, Opaque) and v.what == "result":
        tested = I.pick_assumed(Cond("is_ok", text=repr(v)))
        slog(I, "unwrap", e, tested is True, "dominated by is_ok() on the same value" if tested else f"unwrap of a fallible result ({v.info.get('desc')})")
        return v.info.get("ok", UNIT)
    raise Unanalysable(f"unwrap of {v!r}", FX.short(e.get("sp")))


@model("std::option::Option::<T>::ok_or")
def m_ok_or(I, a, e, ci):
    v, err = a
    return lift(v, lambda x: Enum("Result", "Ok", x.payload) if x.variant == "Some" else Enum("Result", "Err", [err]))


def lift(v, f):
    if isinstance(v, Ite):
        return Ite(v.cond, lift(v.a, f), lift(v.b, f))
    if isinstance(v, Enum):
        return f(v)
    raise Unanalysable(f"Option/Result operation on {v!r}")


@model("std::result::Result::<T, E>::map", "std::option::Option::<T>::map")
def m_res_map(I, a, e, ci):
    v, f = a
    if isinstance(v, Opaque) and v.what == "result":
        return Opaque("result", ok=I.apply_closure(f, [v.info.get("ok", UNIT)]), desc=v.info.get("desc"))
    return lift(v, lambda x: Enum(x.path, x.variant, [I.apply_closure(f, x.payload)]) if x.variant in ("Ok", "Some") else x)


@model("std::result::Result::<T, E>::map_err")
def m_res_map_err(I, a, e, ci):
    v, f = a
    if isinstance(v, Opaque) and v.what == "result":
        info = dict(v.info)
        info["err"] = I.apply_closure(f, [v.info.get("err", Opaque("error-value"))])
        return Opaque("result", **info)
    return lift(v, lambda x: Enum(x.path, x.variant, [I.apply_closure(f, x.payload)]) if x.variant == "Err" else x)


@model("std::result::Result::<T, E>::ok")
def m_res_ok(I, a, e, ci):
    if isinstance(a[0], Opaque) and a[0].what == "result":
        return a[0]
    return lift(a[0], lambda x: Enum("Option", "Some", x.payload) if x.variant == "Ok" else Enum("Option", "None", []))


@model("std::result::Result::<T, E>::is_ok")
def m_is_ok(I, a, e, ci):
    return BoolV(Cond("is_ok", text=repr(a[0])))


@model("std::option::Option::<T>::take", places=(0,))
def m_opt_take(I, a, e, ci):
    old = I.deref(a[0].get())
    a[0].set(Enum("Option", "None", []))
    return old


@model("std::option::Option::<T>::is_some", "std::option::Option::<T>::is_none")
def m_opt_is(I, a, e, ci):
    v = a[0]
    want_some = (ci.get("path") or "").endswith("is_some")
    if isinstance(v, Enum):
        return BoolV((v.variant == "Some") == want_some)
    if isinstance(v, Ite) and isinstance(v.a, Enum) and isinstance(v.b, Enum):
        c = v.cond if (v.a.variant == "Some") == want_some else v.cond.negate()
        return BoolV(c)
    raise Unanalysable(f"is_some/is_none on {v!r}")


@model("std::option::Option::<T>::unwrap_or", "std::result::Result::<T, E>::unwrap_or")
def m_unwrap_or(I, a, e, ci):
    v, d = a
    if isinstance(v, Opaque) and v.what == "max-option" and isinstance(d, IntV) and eq(d.e, 0):
        return IntV(v.info["mx"])  # MAX over the empty sequence is 0 by the same convention as the running-maximum loop
    if isinstance(v, Enum):
        return v.payload[0] if v.variant in ("Some", "Ok") else d
    if isinstance(v, Ite) and isinstance(v.a, Enum) and isinstance(v.b, Enum):
        return Ite(v.cond, v.a.payload[0] if v.a.variant in ("Some", "Ok") else d, v.b.payload[0] if v.b.variant in ("Some", "Ok") else d)
    raise Unanalysable(f"unwrap_or on {v!r}")


@model("std::mem::take", places=(0,))
def m_take_default(I, a, e, ci):
    old = I.deref(a[0].get())
    if isinstance(old, Vec):
        a[0].set(Vec([]))
    elif isinstance(old, Enum) and old.variant in ("Some", "None"):
        a[0].set(Enum("Option", "None", []))
    elif isinstance(old, IntV):
        a[0].set(IntV(0))
    elif isinstance(old, Sc):
        a[0].set(Sc(0))
    else:
        raise Unanalysable(f"mem::take of {old!r}")
    return old


@model("std::iter::Iterator::unzip")
def m_unzip(I, a, e, ci):
    it = I.to_iter(a[0])
    if it.vec is None:
        raise Unanalysable("unzip of an unbounded iterator")
    return Tup([it.vec.map(lambda t: t.items[0]), it.vec.map(lambda t: t.items[1])])


@model("std::vec::Vec::<T, A>::as_mut_slice", "core::slice::<impl [T]>::as_mut", "std::vec::Vec::<T, A>::as_mut", places=(0,))
def m_as_mut_slice(I, a, e, ci):
    # `v.as_mut_slice()` is `&mut v[..]`: the place itself
    return a[0]


@model("std::mem::swap", places=(0, 1))
def m_swap(I, a, e, ci):
    x, y = I.deref(a[0].get()), I.deref(a[1].get())
    a[0].set(y)
    a[1].set(x)
    return UNIT


@model("std::mem::replace", places=(0,))
def m_replace(I, a, e, ci):
    old = I.deref(a[0].get())
    a[0].set(a[1])
    return old


# ---------------------------------------------------------------------------
# integers


@model("core::num::<impl usize>::next_power_of_two")
def m_npow2(I, a, e, ci):
    n = sp.expand(a[0].e)
    if n.is_number:
        k = 1
        while k < int(n):
            k *= 2
        return IntV(k)
    return IntV(n + sfun("pad")(n))


@model("std::cmp::Ord::max", "core::cmp::Ord::max", "std::cmp::max")
def m_max(I, a, e, ci):
    x, y = a
    if isinstance(x, IntV) and isinstance(y, IntV):
        if le(x.e, y.e, I.bounds):
            return y
        if le(y.e, x.e, I.bounds):
            return x
        mx = sfun("MAX2")(sp.expand(x.e), sp.expand(y.e))
        I.bounds.add_le(x.e, mx)
        I.bounds.add_le(y.e, mx)
        return IntV(mx)
    raise Unanalysable(f"max of {x!r}, {y!r}")


@model("core::num::<impl usize>::trailing_zeros", "core::num::<impl u32>::leading_zeros", "core::num::<impl usize>::is_power_of_two", "core::num::<impl usize>::leading_zeros", "core::num::<impl u64>::leading_zeros", "core::num::<impl u64>::trailing_zeros", "core::num::<impl u32>::trailing_zeros")
def m_intfn(I, a, e, ci):
    path = ci.get("path") or ""
    name = path.split("::")[-1]
    if name == "is_power_of_two":
        return BoolV(Cond("is_pow2", sp.expand(a[0].e)))
    if name == "leading_zeros" and ("impl usize" in path or "impl u64" in path):
        # 64-bit count of a value below 2^32 (every count here is: lengths, gate counts, indices) = 32 + the 32-bit count;
        # one canonical atom, so `63 - clz64(i)`, `31 - clz32(i)` and `ilog2(i)` are the same term
        return IntV(32 + sfun(name)(sp.expand(a[0].e)))
    return IntV(sfun(name)(sp.expand(a[0].e)))


@model("core::num::<impl usize>::ilog2", "core::num::<impl u32>::ilog2", "core::num::<impl u64>::ilog2")
def m_ilog2(I, a, e, ci):
    # floor(log2 x) = 31 - clz32(x) for 0 < x < 2^32 (the canonical spelling of the reference code)
    return IntV(31 - sfun("leading_zeros")(sp.expand(a[0].e)))


# ---------------------------------------------------------------------------
# vectors and iterators


def log_alloc(I, size, e):
    size = sp.expand(size)
    proofish = [str(x) for x in size.free_symbols if str(x).startswith(("lg", "len_bytes"))] + [str(f.func) for f in size.atoms(sp.Function) if str(f.func).startswith(("lgk",))]
    ok = not proofish or le(size, 64, I.bounds)
    if not ok:
        # proportional to the length of a list the proof already holds in memory (small constant factor, no function of
        # it such as 2^len): bounded by the input size, not an amplification
        syms = [x for x in size.free_symbols if str(x).startswith(("lg", "len_bytes"))]
        in_fun = any(f.free_symbols & set(syms) for f in size.atoms(sp.Function))
        lin = all(sp.Poly(size, x).degree() <= 1 and sp.Poly(size, x).coeff_monomial(x).is_number and abs(sp.Poly(size, x).coeff_monomial(x)) <= 16 for x in syms) if not in_fun else False
        ok = bool(syms) and not in_fun and lin and not [f for f in size.atoms(sp.Function) if str(f.func).startswith("lgk")]
    slog(I, "alloc", e, ok, f"allocation of {size} elements" + (f" (depends on proof-controlled {proofish})" if proofish else ""))


@model("std::vec::Vec::<T>::new", "std::vec::Vec::<T>::with_capacity")
def m_vec_new(I, a, e, ci):
    if a and isinstance(a[0], IntV):
        log_alloc(I, a[0].e, e)
    return Vec([])


@model("std::vec::from_elem")
def m_from_elem(I, a, e, ci):
    log_alloc(I, a[1].e, e)
    return Vec.const(a[0], a[1].e)


@model("std::vec::Vec::<T, A>::len", "core::slice::<impl [T]>::len")
def m_len(I, a, e, ci):
    v = I.deref(a[0])
    if isinstance(v, IterV):
        v = v.vec
    if I.newtype_inner(v) is not None:
        v = I.newtype_inner(v)
    if isinstance(v, Vec):
        return IntV(v.length())
    if isinstance(v, Bytes):
        return IntV(isym("len_bytes"))
    raise Unanalysable(f"len of {v!r}")


@model("std::vec::Vec::<T, A>::is_empty", "std::slice::<impl [T]>::is_empty")
def m_is_empty(I, a, e, ci):
    v = I.deref(a[0])
    if isinstance(v, IterV):
        v = v.vec
    if isinstance(v, Vec):
        ln = v.length()
        c = I.decide(Cond("eq", sp.expand(ln), sp.Integer(0)))
        return BoolV(c)
    raise Unanalysable(f"is_empty of {v!r}")


def outer_of_loop(I, ref):
    """innermost active loop context for which the place lives outside the loop body"""
    root = getattr(ref, "root_id", None)
    for lc in reversed(I.loop_ctx):
        if lc.get("isym") is None:
            continue
        if root is None or root in lc.get("outer_ids", ()):
            return lc
    return None


@model("std::vec::Vec::<T, A>::push", places=(0,))
def m_push(I, a, e, ci):
    ref, v = a
    cur = I.deref(ref.get())
    if isinstance(cur, Bytes):
        ref.set(Bytes(cur.parts + [("byte", v)]))
        return UNIT
    if isinstance(cur, Ite) and isinstance(cur.a, Vec) and isinstance(cur.b, Vec):
        # push onto a conditionally built vector: pushed onto both alternatives
        ref.set(Ite(cur.cond, Vec(cur.a.segs + [Seg(1, lambda j, v=v: v)]), Vec(cur.b.segs + [Seg(1, lambda j, v=v: v)])))
        return UNIT
    lc = None
    for c in reversed(I.loop_ctx):
        if c.get("isym") is not None:
            lc = c
            break
    if lc is not None and ref.root_id is not None and ref.root_id in lc["outer_ids"]:
        I.refuse_conditional_loop_effect("push", e)
        lc["pushes"].append((ref, v, e))
        return UNIT
    ref.set(Vec(cur.segs + [Seg(1, lambda j, v=v: v)]))
    return UNIT


@model("std::vec::Vec::<T, A>::extend_from_slice", "std::iter::Extend::extend", "<std::vec::Vec<T, A> as std::iter::Extend<T>>::extend", places=(0,))
def m_extend(I, a, e, ci):
    ref, o = a
    cur = I.deref(ref.get())
    o = I.deref(o)
    if isinstance(o, IterV):
        if o.vec is None:
            raise Unanalysable("extend from unbounded iterator")
        o = o.vec
    if not isinstance(o, Vec):
        raise Unanalysable(f"extend with {o!r}")
    ref.set(Vec(cur.segs + o.segs))
    return UNIT


@model("std::vec::Vec::<T, A>::append", places=(0, 1))
def m_append(I, a, e, ci):
    ref, oref = a
    cur = I.deref(ref.get())
    o = I.deref(oref.get())
    ref.set(Vec(cur.segs + o.segs))
    oref.set(Vec([]))
    return UNIT


@model("std::vec::Vec::<T, A>::clear", places=(0,))
def m_vclear(I, a, e, ci):
    a[0].set(Vec([]))
    return UNIT


@model("clear_on_drop::clear::Clear::clear", places=(0,))
def m_clear(I, a, e, ci):
    cur = I.deref(a[0].get())
    if isinstance(cur, Sc):
        a[0].set(Sc(0))
    return UNIT


@model("std::clone::Clone::clone", "std::iter::Iterator::cloned", "std::iter::Iterator::copied")
def m_clone(I, a, e, ci):
    v = I.deref(a[0])
    if isinstance(v, Tr):
        t = Tr(v.name, parent=v)
        I.trace.add("fork", {"from": v, "to": t, "where": FX.short(e.get("sp"))})
        return t
    if isinstance(v, IterV):
        return IterV(v.vec, None, v.infinite)
    return I.copy_val(v)


@model("core::slice::<impl [T]>::iter", "std::vec::Vec::<T, A>::drain")
def m_iter(I, a, e, ci):
    return I.to_iter(a[0], e)


@model("std::iter::IntoIterator::into_iter", places=(0,))
def m_into_iter(I, a, e, ci):
    """`for x in &mut v[..]` iterates mutably (like iter_mut); every other receiver is read"""
    arg = (e.get("args") or [e.get("recv")] or [None])[0] if e.get("k") == "Call" else e.get("recv")
    ty = (arg or {}).get("ty") or ""
    v = I.deref(a[0].get())
    if ty.startswith("&mut ") and isinstance(v, Vec):
        return IterV(v, by_ref_mut=a[0])
    return I.to_iter(v, e)


@model("core::slice::<impl [T]>::iter_mut", places=(0,))
def m_iter_mut(I, a, e, ci):
    v = I.deref(a[0].get())
    if not isinstance(v, Vec):
        raise Unanalysable(f"iter_mut on {v!r}")
    return IterV(v, by_ref_mut=a[0])


@model("std::iter::once")
def m_once(I, a, e, ci):
    return IterV(Vec.lit([a[0]]))


@model("std::iter::repeat")
def m_repeat(I, a, e, ci):
    return IterV(None, infinite=lambda i, v=a[0]: v)


@model("std::iter::Iterator::take")
def m_take(I, a, e, ci):
    raw = a[0]
    base = I.deref(raw)
    if isinstance(base, UserIter) and base.limit is None:
        return UserIter(base.place, a[1].e)
    if I.local_next_fn(base) is not None:
        # take(n) of a crate-local iterator (by value or through by_ref): its own `next` is interpreted n times
        if isinstance(raw, Ref):
            return UserIter(raw, a[1].e)
        box = [base]
        return UserIter(Ref(lambda: box[0], lambda nv: box.__setitem__(0, nv), "iter-tmp"), a[1].e)
    it, n = I.to_iter_or_inf(a[0]), a[1]
    if it.vec is None:
        return IterV(Vec([Seg(n.e, lambda j, it=it: it.infinite(j))]))
    total = it.vec.length()
    if not le(total, n.e, I.bounds) and not le(n.e, total, I.bounds) and len(it.vec.nonempty_segs()) == 1:
        # prefix of a table whose size is not provably sufficient: continue with the requested prefix, but
        # record it (C17: generator views need a dominating capacity guard; C08: downstream lengths)
        slog(I, "prefix-unproved", e, False, f"take({sp.expand(n.e)}) of a sequence of length {total}: no guard establishes {sp.expand(n.e)} <= {total}")
        sg = it.vec.nonempty_segs()[0]
        return IterV(Vec([Seg(n.e, sg.f)]))
    return IterV(it.vec.take(n.e, I.bounds), it.mut_place)


def mut_elems(I, it):
    """element vector of an iterator; elements of an iter_mut iterator become MutSlots that remember where they write"""
    if it.mut_place is None or it.vec is None:
        return it.vec
    return it.vec.map_indexed(lambda i, v, p=it.mut_place: MutSlot(p, i, v))


@model("std::iter::Iterator::skip")
def m_skip(I, a, e, ci):
    it, n = I.to_iter_or_inf(a[0]), a[1]
    if it.vec is None:
        inf = it.infinite
        return IterV(None, infinite=lambda i, inf=inf, n=n: inf(sp.expand(i + n.e)))
    return IterV(mut_elems(I, it).skip(n.e, I.bounds))


@model("std::iter::Iterator::rev")
def m_rev(I, a, e, ci):
    return IterV(mut_elems(I, I.to_iter(a[0])).rev())


@model("std::iter::Iterator::chain")
def m_chain(I, a, e, ci):
    x, y = I.to_iter(a[0]), I.to_iter(a[1])
    if x.vec is not None and y.vec is None:
        # finite prefix followed by an unbounded tail
        pre, inf = x.vec, y.infinite
        ln = pre.length()
        return IterV(None, infinite=lambda i, pre=pre, inf=inf, ln=ln: (pre.index(i, I.bounds) if lt(i, ln, I.bounds) else (inf(sp.expand(i - ln)) if le(ln, i, I.bounds) else _undecidable(i, ln))))
    if x.vec is None:
        return x
    if x.mut_place is not None or y.mut_place is not None:
        return IterV(Vec(x.vec.segs + y.vec.segs), by_ref_mut=ChainPlace(I, [x, y]))
    return IterV(Vec(x.vec.segs + y.vec.segs))


def _undecidable(i, ln):
    raise Unanalysable(f"element {i} of a chained iterator: cannot decide whether it lies in the finite prefix of length {ln}")


class ChainPlace(Ref):
    """write-back target for chained iter_mut iterators"""

    def __init__(self, I, parts):
        self.I, self.parts = I, parts
        self.desc = "+".join(getattr(p.mut_place, "desc", "?") for p in parts)

    def get(self):
        segs = []
        for p in self.parts:
            segs += self.I.deref(p.mut_place.get()).segs if p.mut_place is not None else p.vec.segs
        return Vec(segs)

    def set(self, v):
        rest = v
        for p in self.parts:
            cur = self.I.deref(p.mut_place.get()) if p.mut_place is not None else p.vec
            part, rest = rest.split_at(cur.length(), self.I.bounds)
            if p.mut_place is not None:
                p.mut_place.set(part)


@model("std::iter::Iterator::zip")
def m_zip(I, a, e, ci):
    x, y = I.to_iter_or_inf(a[0]), I.to_iter_or_inf(a[1])
    if x.vec is None and y.vec is None:
        raise Unanalysable("zip of two unbounded iterators")
    xv, yv = mut_elems(I, x), mut_elems(I, y)
    if y.vec is None:
        return IterV(xv.map_indexed(lambda i, v, y=y: Tup([v, y.infinite(i)])))
    if x.vec is None:
        return IterV(yv.map_indexed(lambda i, v, x=x: Tup([x.infinite(i), v])))
    return IterV(zip_vecs(xv, yv, I.bounds))


@model("std::iter::Iterator::enumerate")
def m_enumerate(I, a, e, ci):
    it = I.to_iter(a[0])
    return IterV(mut_elems(I, it).map_indexed(lambda i, v: Tup([IntV(i), v])))


@model("std::iter::Iterator::map")
def m_map(I, a, e, ci):
    it = I.to_iter_or_inf(a[0])
    f = a[1]
    if it.vec is None:
        inf = it.infinite
        return IterV(None, infinite=lambda i: I.apply_closure(f, [inf(i)]))
    out = []
    off = sp.Integer(0)
    vec = it.vec
    fc = I.deref(f)
    if isinstance(fc, Closure):
        # index-aligned access to vectors captured by the closure: split the range at their breakpoints
        vec = I.refine_by_env(vec, fc.env)
    for s in vec.nonempty_segs():
        out.append(eager_map_segment(I, s, f, off))
        off = sp.expand(off + s.n)
    return IterV(Vec(out))


def eager_map_segment(I, s, f, off):
    """apply a closure once to the generic element of a segment (effects happen once)"""
    if s.n == 1:
        v = I.apply_closure(f, [s.f(sp.Integer(0))])
        return Seg(1, lambda jj, v=v: v)
    j0 = fresh("m", integer=True, nonnegative=True)
    if not hasattr(I, "map_ctx"):
        I.map_ctx = []
    I.map_ctx.append(j0)
    old_b = I.bounds
    I.bounds = I.bounds.with_ub(j0, s.n)
    old_trace = I.sub_trace()
    try:
        v0 = I.apply_closure(f, [s.f(j0)])
    finally:
        I.map_ctx.pop()
        I.bounds = old_b
        sub = I.trace
        I.trace = old_trace
    if sub.items:
        I.trace.add("star", sub.items, {"n": s.n, "isym": j0, "off": off, "where": "map"})
    return Seg(s.n, lambda jj, v0=v0, j0=j0: subst_val(v0, {j0: jj}))


def _collect_result(I, it, e):
    """`iter.map(|x| fallible(x)).collect::<Result<Vec<_>, E>>()`: the first Err aborts, otherwise the Ok payloads.
    Each element is a chain ite(c1, Err e1, ite(c2, Err e2, .. Ok(v))); the conditions become exit guards at the places
    where the map closure's trace has the corresponding (one-sided) alternatives - the same as a for loop with `?`."""
    where = FX.short(e.get("sp"))
    segs = it.vec.nonempty_segs()
    stars = [x for x in I.trace.items if x[0] == "star" and x[2].get("where") == "map"]
    out = []
    for s_ in segs:
        star = None
        if s_.n != 1:
            star = stars.pop(0) if len(stars) >= 1 and len(stars) >= len([t for t in segs if t.n != 1]) - len([o for o in out if o[0] != 1]) else (stars[-1] if stars else None)
        j0 = star[2]["isym"] if star is not None and star[2].get("isym") is not None else sp.Integer(0)
        el = I.deref(s_.f(j0))
        conds = []
        while isinstance(el, Ite) and isinstance(el.cond, Cond):
            a_, b_ = I.deref(el.a), I.deref(el.b)
            if isinstance(a_, Enum) and a_.variant == "Err":
                conds.append((el.cond, a_))
                el = b_
            elif isinstance(b_, Enum) and b_.variant == "Err":
                conds.append((el.cond.negate(), b_))
                el = a_
            else:
                break
        if not (isinstance(el, Enum) and el.variant == "Ok"):
            raise Unanalysable(f"collect into Result: element is not a chain of early errors ending in Ok: {el!r}", where)
        payload = el.payload[0] if el.payload else UNIT
        items = star[1] if star is not None else I.trace.items
        fnname = I.fn_stack[-1] if I.fn_stack else ""
        for c_, err_ in conds:
            placed = False
            for k_, it_ in enumerate(items):
                if it_[0] == "alt" and isinstance(it_[1], Cond) and it_[1].key() in (c_.key(), c_.negate().key()):
                    then_aborts = it_[1].key() == c_.key()
                    dead, live = (it_[2], it_[3]) if then_aborts else (it_[3], it_[2])
                    if any(x[0] == "op" for x in dead):
                        raise Unanalysable("collect into Result: the failing alternative has transcript effects", where)
                    items[k_:k_ + 1] = [("guard", c_, err_, where, fnname)] + list(live)
                    placed = True
                    break
            if not placed:
                items.insert(0, ("guard", c_, err_, where, fnname))
            I.learn(c_)
        if s_.n == 1:
            out.append((1, Seg(1, lambda jj, payload=payload: payload)))
        else:
            out.append((s_.n, Seg(s_.n, lambda jj, payload=payload, j0=j0: subst_val(payload, {j0: jj}))))
    return Enum("Result", "Ok", [Vec([sg for _, sg in out])])


@model("std::iter::Iterator::collect")
def m_collect(I, a, e, ci):
    it = I.to_iter(a[0])
    ty = e.get("ty", "")
    if ty.startswith("std::result::Result<std::vec::Vec"):
        return _collect_result(I, it, e)
    if ty.startswith(LC_ADT):
        # FromIterator for the crate's own type: its by-value impl is interpreted on the iterator
        p = _local_impl(I, _LC_RX + r"std::iter::FromIterator<\(r1cs::linear_combination::Variable<\w+>, \w+\)>>::from_iter")
        if p is None:
            raise Unanalysable("collect into LinearCombination: no local FromIterator impl found", FX.short(e.get("sp")))
        return I.call_fn(p, [it], e)
    if "LinearCombination" in ty and not ty.startswith("std::vec::Vec"):
        raise Unanalysable("collect into a container of LinearCombination goes through FromIterator")
    return Vec(it.vec.segs)


@model("std::iter::Iterator::sum")
def m_sum(I, a, e, ci):
    it = I.to_iter(a[0])
    total = sp.Integer(0)
    for s in it.vec.nonempty_segs():
        k = fresh("k", integer=True, nonnegative=True)
        v = s.f(k)
        total += mk_sum(s.n, as_sc(v).e, k)
    return Sc(total)


@model("std::iter::Iterator::filter")
def m_filter(I, a, e, ci):
    hook = I.hooks.get("filter")
    if hook:
        return hook(I, a, e)
    raise Unanalysable("Iterator::filter changes lengths data-dependently")


@model("std::iter::Iterator::next", places=(0,))
def m_next(I, a, e, ci):
    it = I.deref(a[0].get())
    if not isinstance(it, IterV) or it.vec is None:
        raise Unanalysable(f"explicit Iterator::next on {it!r}")
    ln = it.vec.length()
    nonempty = I.decide(Cond("lt", sp.Integer(0), sp.expand(ln)))
    if nonempty is False:
        return Enum("Option", "None", [])
    first = it.vec.index(sp.Integer(0), I.bounds) if it.vec.nonempty_segs() else None
    if first is None:
        return Enum("Option", "None", [])
    rest = IterV(it.vec.skip(1, I.bounds.with_ub(isym("_one"), 2)) if nonempty is True else Vec([Seg(sp.expand(s_.n - (1 if k_ == 0 else 0)), (lambda j, s_=s_, k_=k_: s_.f(j + (1 if k_ == 0 else 0)))) for k_, s_ in enumerate(it.vec.nonempty_segs())]))
    a[0].set(rest)
    some = Enum("Option", "Some", [first])
    if nonempty is True:
        return some
    return Ite(nonempty, some, Enum("Option", "None", []))


@model("std::iter::Iterator::all", "std::iter::Iterator::any")
def m_all_any(I, a, e, ci):
    it = I.deref(a[0])
    which = (ci.get("path") or "").split("::")[-1]
    c = Cond("other", text=f"{which}({it!r}, <closure at {FX.short(e.get('sp'))}>)")
    return BoolV(c)


@model("core::slice::<impl [T]>::split_at_mut", "core::slice::<impl [T]>::split_at")
def m_split_at(I, a, e, ci):
    v = I.deref(a[0])
    if isinstance(v, Ref):
        v = I.deref(v.get())
    if isinstance(v, Opaque) and v.what == "digest":
        n_ = sp.expand(a[1].e)
        size = v.info["hash"].out_len()
        ok = n_.is_number and size is not None and 0 <= int(n_) <= size
        slog(I, "slice", e, bool(ok), f"split_at({n_}) of a {size}-byte digest")
        if not ok:
            raise Unanalysable(f"split_at({n_}) of a digest of unknown/insufficient length", FX.short(e.get("sp")))
        return Tup([Bytes([("digest-slice", v.info["hash"], "0", str(n_))]), Bytes([("digest-slice", v.info["hash"], str(n_), "end")])])
    ok = le(0, a[1].e, I.bounds) and le(a[1].e, v.length(), I.bounds)
    slog(I, "slice", e, ok, f"split_at({sp.expand(a[1].e)}) of length {v.length()}")
    x, y = v.split_at(a[1].e, I.bounds)
    return Tup([x, y])


@model("core::slice::<impl [T]>::copy_from_slice", places=(0,))
def m_copy_from_slice(I, a, e, ci):
    a[0].set(I.deref(a[1]))
    return UNIT


@model("std::ops::Index::index", "std::ops::IndexMut::index_mut")
def m_index(I, a, e, ci):
    return I.index_val(a[0], a[1], e)


# ---------------------------------------------------------------------------
# serialisation


@model("ark_serialize::CanonicalSerialize::serialize_uncompressed", "ark_serialize::CanonicalSerialize::serialize_compressed", places=(1,))
def m_serialize(I, a, e, ci):
    val, w = a
    mode = "uncompressed" if ci.get("path", "").endswith("serialize_uncompressed") else "compressed"
    cur = I.deref(w.get())
    if isinstance(cur, Vec) and not cur.segs:
        cur = Bytes([])
    if isinstance(cur, Bytes) and not any(p[0] == "zeros" for p in cur.parts):
        w.set(Bytes(cur.parts + [(mode, val)]))
        return Enum("Result", "Ok", [UNIT])
    if isinstance(cur, Opaque) and cur.what == "cursor":
        cur.info.setdefault("writes", []).append((mode, val))
        return Opaque("result", ok=UNIT, desc="io-error")
    # fixed-size buffers etc.: the write may fail / truncate
    try:
        w.set(Bytes([("truncated:" + mode, val, repr(cur))]))
    except Unanalysable:
        pass
    return Opaque("result", ok=UNIT, desc="serialize-into-fixed-buffer")


@model("io::Cursor::<T>::new")
def m_cursor_new(I, a, e, ci):
    return Opaque("cursor", inner=a[0], writes=[])


@model("io::Cursor::<T>::into_inner")
def m_cursor_inner(I, a, e, ci):
    c = a[0]
    return Bytes(list(c.info.get("writes", []))) if isinstance(c, Opaque) else c


@model("ark_serialize::CanonicalDeserialize::deserialize_compressed", "ark_serialize::CanonicalDeserialize::deserialize_uncompressed", "ark_serialize::CanonicalDeserialize::deserialize_compressed_unchecked", "ark_serialize::CanonicalDeserialize::deserialize_uncompressed_unchecked", "ark_serialize::CanonicalDeserialize::deserialize_with_mode")
def m_deserialize(I, a, e, ci):
    name = ci.get("path", "").split("::")[-1]
    I.asserts.append(("deserialize", name, FX.short(e.get("sp"))))
    return Opaque("result", ok=Opaque("decoded", via=name, src=a[0]), desc="decode:" + name)


# ---------------------------------------------------------------------------
# merlin / rng / hash


def trace_op(I, tr, kind, label, payload, e, result=None):
    tr = I.deref(tr)
    if not isinstance(tr, Tr):
        raise Unanalysable(f"transcript operation on {tr!r}")
    lab = None
    label = I.deref(label)
    if isinstance(label, Bytes) and len(label.parts) == 1 and label.parts[0][0] == "lit":
        lab = label.parts[0][1]
    d = {"tr": tr, "kind": kind, "label": lab, "label_val": label, "payload": payload, "where": FX.short(e.get("sp")), "fn": I.fn_stack[-1] if I.fn_stack else "", "result": result}
    I.trace.add("op", d)
    return d


@model("merlin::Transcript::append_message", places=())
def m_append_message(I, a, e, ci):
    trace_op(I, a[0], "append_message", a[1], I.deref(a[2]), e)
    return UNIT


@model("merlin::Transcript::append_u64")
def m_append_u64(I, a, e, ci):
    trace_op(I, a[0], "append_u64", a[1], I.deref(a[2]), e)
    return UNIT


@model("merlin::Transcript::challenge_bytes", places=(2,))
def m_challenge_bytes(I, a, e, ci):
    tr = I.deref(a[0])
    label = I.deref(a[1])
    lab = label.parts[0][1] if isinstance(label, Bytes) and len(label.parts) == 1 and label.parts[0][0] == "lit" else None
    key = (tr.root().id, lab)
    k = I.chal_count.get(key, 0)
    I.chal_count[key] = k + 1
    buf = I.deref(a[2].get())
    size = None
    if isinstance(buf, Bytes) and len(buf.parts) == 1 and buf.parts[0][0] == "zeros":
        size = buf.parts[0][1]
    idx = [lc["isym"] for lc in I.loop_ctx if lc.get("isym") is not None]
    res = Bytes([("challenge", {"tr": tr, "label": lab, "k": k, "size": size, "idx": tuple(idx), "clone": tr.is_clone()})])
    a[2].set(res)
    trace_op(I, tr, "challenge_bytes", label, None, e, result=res)
    return UNIT


@model("merlin::Transcript::build_rng")
def m_build_rng(I, a, e, ci):
    b = RngBuilder(I.deref(a[0]))
    b.where = FX.short(e.get("sp"))
    b.trace_pos = len(I.trace.items)
    I.trace.add("build_rng", {"builder": b, "tr": b.tr, "where": b.where})
    return b


@model("merlin::TranscriptRngBuilder::rekey_with_witness_bytes")
def m_rekey(I, a, e, ci):
    b = I.deref(a[0])
    label = I.deref(a[1])
    lab = label.parts[0][1] if isinstance(label, Bytes) and label.parts and label.parts[0][0] == "lit" else None
    idx = [lc["isym"] for lc in I.loop_ctx if lc.get("isym") is not None]
    b.rekeys.append({"label": lab, "payload": I.deref(a[2]), "idx": idx, "loop_n": [lc["n"] for lc in I.loop_ctx if lc.get("isym") is not None], "where": FX.short(e.get("sp"))})
    return b


@model("merlin::TranscriptRngBuilder::finalize")
def m_finalize(I, a, e, ci):
    b = I.deref(a[0])
    ext = I.deref(a[1])
    r = RngV("transcript_rng", "trng", {"builder": b, "external": ext, "where": FX.short(e.get("sp"))})
    return r


@model("rand_core::SeedableRng::from_seed")
def m_from_seed(I, a, e, ci):
    seed = I.deref(a[0])
    ty = (ci.get("resolved") or ci.get("path") or "")
    name = "chacha"
    if isinstance(seed, Bytes) and seed.parts and seed.parts[0][0] == "challenge":
        c = seed.parts[0][1]
        lab = (c["label"] or b"?").decode(errors="replace")
        name = f"ch[{lab}]" + ("~clone" if c["clone"] else "")
        if c["k"]:
            name += f"#{c['k']}"
    return RngV("chacha_seeded", name, {"seed": seed, "impl": ty, "where": FX.short(e.get("sp"))})


@model("digest::Digest::new")
def m_digest_new(I, a, e, ci):
    ga = ci.get("gargs") or []
    return HashV(ga[0] if ga else e.get("ty", "?"))


@model("digest::Digest::update", places=())
def m_digest_update(I, a, e, ci):
    h = I.deref(a[0])
    if not isinstance(h, HashV):
        raise Unanalysable(f"Digest::update on {h!r}")
    h.updates.append(I.deref(a[1]))
    return UNIT


@model("digest::Digest::finalize")
def m_digest_finalize(I, a, e, ci):
    h = I.deref(a[0])
    return Opaque("digest", hash=h)


@model("byteorder::ByteOrder::write_u32", places=(0,))
def m_write_u32(I, a, e, ci):
    which = (ci.get("resolved") or "")
    endian = "LE" if "LittleEndian" in which else ("BE" if "BigEndian" in which else "?")
    a[0].set(Bytes([("u32", endian, I.deref(a[1]))]))
    return UNIT


@model("std::borrow::BorrowMut::borrow_mut", places=(0,))
def m_borrow_mut(I, a, e, ci):
    return a[0]


@model("std::string::ToString::to_string", "std::fmt::Arguments::<'a>::from_str")
def m_opaque(I, a, e, ci):
    return Opaque("string")


@model("core::panicking::panic", "core::panicking::panic_fmt", "core::panicking::assert_failed")
def m_panic(I, a, e, ci):
    raise Unanalysable("reachable panic outside a recognised guard", FX.short(e.get("sp")))


@model("std::iter::Iterator::fold")
def m_fold(I, a, e, ci):
    """fold(init, |acc, x| ..) over a symbolic vector: one generic application per segment, closed by the scalar
    accumulator schemas of the for-loop engine (constant, power, product, sum)"""
    it = I.to_iter(a[0], e)
    acc = I.deref(a[1])
    f = a[2]
    where = FX.short(e.get("sp"))
    if it.vec is None:
        raise Unanalysable("fold over an unbounded iterator", where)
    fvec = mut_elems(I, it)
    fc = I.deref(f)
    if isinstance(fc, Closure) and it.mut_place is None:
        fvec = I.refine_by_env(fvec, fc.env)
    for s in fvec.nonempty_segs():
        if s.n == 1:
            acc = I.deref(I.apply_closure(f, [acc, I.bind_slots(s.f(sp.Integer(0)), e)]))
            continue
        if not isinstance(acc, Sc) and not isinstance(acc, Val):
            # an effect object threaded through the closure (`fold(builder, |b, x| b.rekey(.., x))`): one generic
            # application under a loop context, exactly like `for x in v { b = b.rekey(.., x) }`; the closure must hand
            # the same object on and have no transcript effects
            j = fresh("j", integer=True, nonnegative=True)
            old_b = I.bounds
            I.bounds = I.bounds.with_ub(j, s.n)
            I.loop_log.append({"n": s.n, "off": sp.Integer(0), "where": where, "fn": I.fn_stack[-1] if I.fn_stack else ""})
            I.loop_ctx.append({"isym": j, "n": s.n, "off": sp.Integer(0), "writes": [], "pushes": [], "elem_updates": [], "reads": [], "where": where, "node": e, "outer_ids": set()})
            old_trace = I.sub_trace()
            try:
                new = I.deref(I.apply_closure(f, [acc, I.bind_slots(s.f(j), e)]))
            finally:
                I.loop_ctx.pop()
                I.bounds = old_b
                sub = I.trace
                I.trace = old_trace
            if sub.items:
                raise Unanalysable("effects inside a fold closure", where)
            if new is not acc:
                raise Unanalysable(f"fold over a symbolic range whose closure does not hand its accumulator object on ({acc!r} -> {new!r})", where)
            continue
        if not isinstance(acc, Sc):
            raise Unanalysable(f"fold with an accumulator of kind {acc!r} over a symbolic range", where)
        j = fresh("j", integer=True, nonnegative=True)
        ph = fresh("ACC_fold")
        old_b = I.bounds
        I.bounds = I.bounds.with_ub(j, s.n)
        old_trace = I.sub_trace()
        try:
            new = I.deref(I.apply_closure(f, [Sc(ph), I.bind_slots(s.f(j), e)]))
        finally:
            I.bounds = old_b
            sub = I.trace
            I.trace = old_trace
        if sub.items:
            raise Unanalysable("effects inside a fold closure", where)
        if not isinstance(new, Sc):
            raise Unanalysable(f"fold closure returns {new!r}", where)
        _, acc = I.scalar_acc_schema(acc, ph, sp.expand(new.e), j, s.n, where, "fold accumulator")
    return acc


@model("std::vec::Vec::<T, A>::reserve", "std::vec::Vec::<T, A>::reserve_exact", "std::vec::Vec::<T, A>::shrink_to_fit", places=(0,))
def m_reserve(I, a, e, ci):
    return UNIT


@model("std::vec::Vec::<T, A>::resize", places=(0,))
def m_resize(I, a, e, ci):
    ref, n, v = a[0], I.deref(a[1]), I.deref(a[2])
    cur = I.deref(ref.get())
    if not isinstance(cur, Vec) or not isinstance(n, IntV):
        raise Unanalysable(f"resize of {cur!r}")
    ln = cur.length()
    if le(ln, n.e, I.bounds):
        log_alloc(I, n.e, e)
        ref.set(Vec(cur.segs + [Seg(sp.expand(n.e - ln), lambda j, v=v: v)]))
    elif le(n.e, ln, I.bounds):
        ref.set(cur.take(n.e, I.bounds))
    else:
        raise Unanalysable(f"resize({n.e}) of a vector of length {ln}: cannot order", FX.short(e.get("sp")))
    return UNIT


@model("std::num::<impl u32>::to_le_bytes", "std::num::<impl u32>::to_be_bytes")
def m_u32_bytes(I, a, e, ci):
    endian = "LE" if (ci.get("path") or "").endswith("to_le_bytes") else "BE"
    return Bytes([("u32", endian, I.deref(a[0]))])


@model("std::default::Default::default")
def m_default(I, a, e, ci):
    """Default::default() for the types whose default value is fixed by std: byte arrays, integers, Vec, bool"""
    import re as _re

    ty = (e.get("ty") or "").replace(" ", "")
    m = _re.fullmatch(r"\[u8;(\d+)(usize)?\]", ty)
    if m:
        return Bytes([("zeros", int(m.group(1)))])
    if ty in ("usize", "u64", "u32", "u16", "u8", "i64", "i32", "isize"):
        return IntV(sp.Integer(0))
    if ty.startswith(("std::vec::Vec<", "alloc::vec::Vec<")):
        return Vec([])
    if ty == "bool":
        return BoolV(False)
    raise Unanalysable(f"Default::default() of type {ty}", FX.short(e.get("sp")))


@model("std::bool::<impl bool>::then_some")
def m_then_some(I, a, e, ci):
    c = I.decide(I.as_cond(a[0]))
    some, none = Enum("Option", "Some", [a[1]]), Enum("Option", "None", [])
    if isinstance(c, bool):
        return some if c else none
    return Ite(c, some, none)


@model("std::bool::<impl bool>::then")
def m_then(I, a, e, ci):
    c = I.decide(I.as_cond(a[0]))
    f = I.deref(a[1])
    none = Enum("Option", "None", [])
    if isinstance(c, bool):
        return Enum("Option", "Some", [I.apply_closure(f, [])]) if c else none
    if not isinstance(f, Closure):
        raise Unanalysable(f"bool::then with {f!r}")
    # the closure runs (with its effects) only when the condition holds
    return I.ite_branch(c, lambda: Enum("Option", "Some", [I.apply_closure(f, [])]), lambda: none, f.env, e)


@model("std::option::Option::<T>::ok_or_else")
def m_ok_or_else(I, a, e, ci):
    v, f = a
    return lift(v, lambda x: Enum("Result", "Ok", x.payload) if x.variant == "Some" else Enum("Result", "Err", [I.apply_closure(f, [])]))


@model("std::option::Option::<T>::and_then", "std::result::Result::<T, E>::and_then")
def m_and_then(I, a, e, ci):
    v, f = a
    return lift(v, lambda x: I.deref(I.apply_closure(f, x.payload)) if x.variant in ("Ok", "Some") else x)


@model("std::option::Option::<T>::map_or", "std::result::Result::<T, E>::map_or")
def m_map_or(I, a, e, ci):
    v, d, f = a

    def g(x):
        return I.deref(I.apply_closure(f, x.payload)) if x.variant in ("Ok", "Some") else d

    if isinstance(v, Ite) and isinstance(v.a, Enum) and isinstance(v.b, Enum):
        return Ite(v.cond, g(v.a), g(v.b))
    if isinstance(v, Enum):
        return g(v)
    raise Unanalysable(f"map_or on {v!r}")


@model("std::option::Option::<T>::unwrap_or_else", "std::result::Result::<T, E>::unwrap_or_else", "std::option::Option::<T>::unwrap_or_default")
def m_unwrap_or_else(I, a, e, ci):
    v = a[0]

    def g(x):
        if x.variant in ("Ok", "Some"):
            return x.payload[0] if x.payload else UNIT
        if len(a) < 2:
            raise Unanalysable("unwrap_or_default on None")
        return I.deref(I.apply_closure(a[1], x.payload if x.variant == "Err" else []))

    if isinstance(v, Enum):
        return g(v)
    if isinstance(v, Ite) and isinstance(v.a, Enum) and isinstance(v.b, Enum):
        old = I.sub_trace()
        try:
            ra, rb = g(v.a), g(v.b)
        finally:
            sub_ = I.trace
            I.trace = old
        if sub_.items:
            raise Unanalysable("unwrap_or_else with an effectful fallback under a symbolic condition", FX.short(e.get("sp")))
        return Ite(v.cond, ra, rb)
    raise Unanalysable(f"unwrap_or_else on {v!r}")


@model("std::iter::successors")
def m_successors(I, a, e, ci):
    """successors(Some(x0), |p| Some(p * r)): the geometric sequence x0, x0*r, x0*r^2, .. (the only closed form supported)"""
    first, f = I.deref(a[0]), a[1]
    where = FX.short(e.get("sp"))
    if not (isinstance(first, Enum) and first.variant == "Some" and isinstance(first.payload[0], Sc)):
        raise Unanalysable(f"iter::successors starting from {first!r}", where)
    x0 = first.payload[0]
    ph = fresh("SUCC")
    old = I.sub_trace()
    try:
        nxt = I.deref(I.apply_closure(f, [Sc(ph)]))
    finally:
        sub = I.trace
        I.trace = old
    if sub.items or not (isinstance(nxt, Enum) and nxt.variant == "Some" and isinstance(nxt.payload[0], Sc)):
        raise Unanalysable(f"iter::successors with a step that is not `Some(scalar)`: {nxt!r}", where)
    ratio = sp.simplify(nxt.payload[0].e / ph)
    if ratio.has(ph):
        raise Unanalysable("iter::successors: step is not a multiplication by a fixed factor", where)
    return IterV(None, infinite=lambda i, x0=x0, ratio=ratio: Sc(x0.e * ratio**i))


@model("digest::Digest::chain_update")
def m_chain_update(I, a, e, ci):
    h = I.deref(a[0])
    if not isinstance(h, HashV):
        raise Unanalysable(f"Digest::chain_update on {h!r}")
    h.updates.append(I.deref(a[1]))
    return h


@model("digest::Digest::digest")
def m_digest_oneshot(I, a, e, ci):
    ga = ci.get("gargs") or []
    h = HashV(ga[0] if ga else e.get("ty", "?"))
    h.updates.append(I.deref(a[0]))
    return Opaque("digest", hash=h)


@model("std::convert::TryInto::try_into", "std::convert::TryFrom::try_from")
def m_try_into(I, a, e, ci):
    """&[u8] -> [u8; N]: succeeds exactly when the slice has N bytes (decided for digest prefixes of constant length)"""
    import re as _re

    v = I.deref(a[0])
    ty = (e.get("ty") or "").replace(" ", "")
    m = _re.search(r"\[u8;(\d+)(usize)?\]", ty)
    if m and isinstance(v, Bytes) and len(v.parts) == 1 and v.parts[0][0] == "digest-slice":
        _, h, lo, hi = v.parts[0]
        if lo.isdigit() and hi.isdigit() and int(hi) - int(lo) == int(m.group(1)):
            return Enum("Result", "Ok", [v])
    raise Unanalysable(f"try_into of {v!r} into {ty}", FX.short(e.get("sp")))


@model("std::mem::drop")
def m_drop(I, a, e, ci):
    return UNIT


@model("std::iter::Iterator::by_ref", places=(0,))
def m_by_ref(I, a, e, ci):
    return a[0]


@model("std::iter::repeat_with")
def m_repeat_with(I, a, e, ci):
    f = a[0]
    # the producer must be pure (its one symbolic application stands for every element)
    old = I.sub_trace()
    try:
        v = I.deref(I.apply_closure(f, []))
    finally:
        sub = I.trace
        I.trace = old
    if sub.items:
        raise Unanalysable("iter::repeat_with with an effectful producer", FX.short(e.get("sp")))
    return IterV(None, infinite=lambda i, v=v: I.copy_val(v))


@model("std::iter::empty")
def m_iter_empty(I, a, e, ci):
    return IterV(Vec([]))


@model("std::iter::Iterator::for_each")
def m_for_each(I, a, e, ci):
    it, f = I.deref(a[0]), I.deref(a[1])
    if isinstance(it, UserIter):
        I.user_iter_loop(it, lambda x: I.apply_closure(f, [x]), {}, e)
        return UNIT
    itv = I.to_iter(it, e)
    if isinstance(f, Closure) and len(f.node["params"]) == 1:
        # a for loop whose pattern and body are the closure's
        I.run_loop(f.node["params"][0], itv, f.node["body"], f.env, e)
        return UNIT
    if itv.vec is None:
        raise Unanalysable("for_each over an unbounded iterator", FX.short(e.get("sp")))
    for s in itv.vec.nonempty_segs():
        if s.n != 1:
            raise Unanalysable("for_each with a non-closure callee over a symbolic range", FX.short(e.get("sp")))
        I.apply_closure(f, [s.f(sp.Integer(0))])
    return UNIT


@model("ark_ff::Field::square")
def m_square(I, a, e, ci):
    x = I.deref(a[0])
    if not isinstance(x, Sc):
        raise Unanalysable(f"square of {x!r}")
    return Sc(x.e * x.e)


@model("ark_ff::Field::double")
def m_double(I, a, e, ci):
    x = I.deref(a[0])
    if not isinstance(x, Sc):
        raise Unanalysable(f"double of {x!r}")
    return Sc(2 * x.e)


@model("ark_ff::Field::square_in_place", "ark_ff::Field::double_in_place", places=(0,))
def m_square_in_place(I, a, e, ci):
    x = I.deref(a[0].get())
    if not isinstance(x, Sc):
        raise Unanalysable(f"square_in_place of {x!r}")
    sq = (ci.get("path") or "").endswith("square_in_place")
    a[0].set(Sc(x.e * x.e if sq else 2 * x.e))
    return a[0]


@model("std::iter::Iterator::product")
def m_product(I, a, e, ci):
    it = I.to_iter(a[0], e)
    if it.vec is None:
        raise Unanalysable("product over an unbounded iterator")
    total = sp.Integer(1)
    for s in it.vec.nonempty_segs():
        k = fresh("k", integer=True, nonnegative=True)
        total *= mk_prod(s.n, as_sc(s.f(k)).e, k)
    return Sc(total)


@model("std::cmp::Ord::min", "core::cmp::Ord::min", "std::cmp::min")
def m_min(I, a, e, ci):
    x, y = a
    if isinstance(x, IntV) and isinstance(y, IntV):
        if le(x.e, y.e, I.bounds):
            return x
        if le(y.e, x.e, I.bounds):
            return y
        mn = sfun("MIN2")(sp.expand(x.e), sp.expand(y.e))
        I.bounds.add_le(mn, x.e)
        I.bounds.add_le(mn, y.e)
        return IntV(mn)
    raise Unanalysable(f"min of {x!r}, {y!r}")


@model("digest::Digest::new_with_prefix")
def m_digest_new_with_prefix(I, a, e, ci):
    ga = ci.get("gargs") or []
    h = HashV(ga[0] if ga else e.get("ty", "?"))
    h.updates.append(I.deref(a[0]))
    return h


@model("std::iter::Iterator::count")
def m_count(I, a, e, ci):
    it = I.deref(a[0])
    if isinstance(it, UserIter):
        # consumes the crate-local iterator: its `next` runs `limit` times
        I.user_iter_loop(it, lambda x: None, {}, e)
        return IntV(it.limit)
    itv = I.to_iter(it, e)
    if itv.vec is None:
        raise Unanalysable("count of an unbounded iterator")
    return IntV(itv.vec.length())


@model("ark_serialize::CanonicalSerialize::uncompressed_size", "ark_serialize::CanonicalSerialize::compressed_size", "ark_serialize::CanonicalSerialize::serialized_size")
def m_enc_size(I, a, e, ci):
    """byte length of an encoding: a fixed, non-negative number per type and mode (used for pre-sizing buffers)"""
    mode = (ci.get("path") or "").split("::")[-1]
    return IntV(isym("encsize_" + mode))


@model("ark_ff::Field::neg_in_place", places=(0,))
def m_neg_in_place(I, a, e, ci):
    x = I.deref(a[0].get())
    if not isinstance(x, Sc):
        raise Unanalysable(f"neg_in_place of {x!r}")
    a[0].set(Sc(-x.e))
    return a[0]


@model("std::iter::FromIterator::from_iter")
def m_from_iter(I, a, e, ci):
    ty = e.get("ty", "")
    if not ty.startswith(("std::vec::Vec", "alloc::vec::Vec")):
        raise Unanalysable(f"FromIterator::from_iter into {ty}", FX.short(e.get("sp")))
    it = I.to_iter(a[0], e)
    if it.vec is None:
        raise Unanalysable("from_iter of an unbounded iterator")
    return Vec(it.vec.segs)


@model("core::slice::<impl [T]>::to_vec", "std::slice::<impl [T]>::to_vec", "std::borrow::ToOwned::to_owned")
def m_to_vec(I, a, e, ci):
    v = I.deref(a[0])
    if isinstance(v, IterV):
        v = v.vec
    return I.copy_val(v)


@model("core::slice::<impl [T]>::last", "core::slice::<impl [T]>::first")
def m_last_first(I, a, e, ci):
    v = I.deref(a[0])
    if not isinstance(v, Vec):
        raise Unanalysable(f"first/last of {v!r}")
    last = (ci.get("path") or "").endswith("last")
    ln = v.length()
    nonempty = I.decide(Cond("lt", sp.Integer(0), sp.expand(ln)))
    none = Enum("Option", "None", [])
    if nonempty is False:
        return none
    el = v.index(sp.expand(ln - 1) if last else sp.Integer(0), I.bounds)
    some = Enum("Option", "Some", [el])
    return some if nonempty is True else Ite(nonempty, some, none)


@model("core::slice::<impl [T]>::last_mut", "core::slice::<impl [T]>::first_mut", places=(0,))
def m_last_first_mut(I, a, e, ci):
    v = I.deref(a[0].get())
    if not isinstance(v, Vec):
        raise Unanalysable(f"first_mut/last_mut of {v!r}")
    last = (ci.get("path") or "").endswith("last_mut")
    ln = v.length()
    nonempty = I.decide(Cond("lt", sp.Integer(0), sp.expand(ln)))
    if nonempty is not True:
        raise Unanalysable("first_mut/last_mut of a vector not known to be non-empty", FX.short(e.get("sp")))
    return Enum("Option", "Some", [I.elem_ref(a[0], sp.expand(ln - 1) if last else sp.Integer(0))])


@model("rand::SeedableRng::from_seed")
def m_from_seed2(I, a, e, ci):
    return m_from_seed(I, a, e, ci)


@model("std::option::Option::<T>::filter")
def m_opt_filter(I, a, e, ci):
    v, f = a

    def g(x):
        if x.variant != "Some":
            return x
        c = I.decide(I.as_cond(I.apply_closure(f, [x.payload[0]])))
        none = Enum("Option", "None", [])
        if isinstance(c, bool):
            return x if c else none
        return Ite(c, x, none)

    if isinstance(v, Enum):
        return g(v)
    if isinstance(v, Ite) and isinstance(v.a, Enum) and isinstance(v.b, Enum):
        ra, rb = g(v.a), g(v.b)
        return ra if val_eq(ra, rb) else Ite(v.cond, ra, rb)
    raise Unanalysable(f"Option::filter on {v!r}")


@model("core::num::<impl usize>::checked_sub", "std::num::<impl usize>::checked_sub")
def m_checked_sub(I, a, e, ci):
    x, y = a
    if not (isinstance(x, IntV) and isinstance(y, IntV)):
        raise Unanalysable(f"checked_sub of {x!r}, {y!r}")
    some = Enum("Option", "Some", [IntV(sp.expand(x.e - y.e))])
    none = Enum("Option", "None", [])
    c = I.decide(Cond("lt", sp.expand(x.e), sp.expand(y.e)))
    if isinstance(c, bool):
        return none if c else some
    return Ite(c, none, some)


@model("std::iter::Iterator::try_for_each")
def m_try_for_each(I, a, e, ci):
    """`iter.try_for_each(|x| fallible(x))?`: a for loop whose body ends in `?` (first error aborts)"""
    it, f = I.deref(a[0]), I.deref(a[1])
    itv = I.to_iter(it, e)
    if not (isinstance(f, Closure) and len(f.node["params"]) == 1):
        raise Unanalysable("try_for_each with a non-closure callee", FX.short(e.get("sp")))

    def body(env_):
        r = I.deref(I.ev_raw(f.node["body"], env_))
        I.try_val(r, e)
        return UNIT

    I.run_loop(f.node["params"][0], itv, {"k": "_Py", "f": body, "sp": e.get("sp")}, f.env, e)
    return Enum("Result", "Ok", [UNIT])


@model("std::iter::Iterator::max")
def m_iter_max(I, a, e, ci):
    """maximum of a symbolic sequence of integers: MAX(n, template); None only for the empty sequence"""
    it = I.to_iter(a[0], e)
    if it.vec is None:
        raise Unanalysable("max of an unbounded iterator")
    segs = it.vec.nonempty_segs()
    if not segs:
        return Enum("Option", "None", [])
    if len(segs) != 1:
        raise Unanalysable("Iterator::max over a segmented sequence", FX.short(e.get("sp")))
    s_ = segs[0]
    j = fresh("j", integer=True, nonnegative=True)
    el = s_.f(j)
    if not isinstance(el, IntV):
        raise Unanalysable(f"Iterator::max over {el!r}", FX.short(e.get("sp")))
    t_ = sp.expand(el.e)
    mx = sfun("MAX")(s_.n, t_.xreplace({j: isym("_k")}))
    I.max_facts.append({"template": t_, "isym": j, "n": s_.n, "max": mx, "init": sp.Integer(0), "where": FX.short(e.get("sp"))})
    for fa, fb in list(I.bounds.facts):
        fa_, fb_ = sp.sympify(fa), sp.sympify(fb)
        if fb_.has(j):
            continue
        # an upper bound established for the generic element (under whatever index symbol the earlier loop used)
        # holds for the maximum
        if eq(fa_, t_) or any(not fb_.has(x_) and eq(fa_.xreplace({x_: j}), t_) for x_ in fa_.free_symbols if x_.is_integer):
            I.bounds.add_le(mx, fb_)
    return Opaque("max-option", mx=mx, n=s_.n)

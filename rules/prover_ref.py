"""Reference formulas for the prover's sinks (R01.1) and nonce discipline (C09).

Nonces are not named by draw order (reordering draws is behaviour-preserving): they are read off
the extracted sinks (coefficient on the blinding base, masking-vector coefficients) and every
other sink must then use the same atoms where the protocol says so.
Sources: dalek notes::r1cs_proof (prover's algorithm, two-phase variant); Bulletproofs section 5.2.
"""
import sympy as sp

from . import analyses as AN
from . import facts as FX
from . import spec_ref as REF
from .alg import Cond, Enum, Ite, Pt, Sc, Seg, Struct, Unanalysable, Vec, canon_sums, eq, isym, mk_sum, pt_eq, sfun, show, ssym, vec_eq
from .interp import RngBuilder, RngV, Tr

n1, n2, m = REF.n1, REF.n2, REF.m
X, Y, U, W = REF.X, REF.Y, REF.U, REF.W
aL, aR, aO = sfun("aL"), sfun("aR"), sfun("aO")
wL, wR, wO, wV = REF.wL, REF.wR, REF.wO, REF.wV
vb = sfun("vb")
G, Hh = sfun("G"), sfun("H")
B, Bb = ssym("B"), ssym("Bb")
pf = REF.pf


def pt_coeff(p, base_sym):
    """scalar on a single (non-indexed) base atom"""
    j = isym("_j")
    tot = sp.Integer(0)
    for n, b, s in p.terms:
        if n == 1 and b(j) == base_sym:
            tot += s(j)
    return sp.expand(tot)


def pt_vec_coeff(p, fam, lo, n):
    """scalar function on the base family fam over [lo, lo+n): returns f(j) (relative) or None"""
    j = isym("_j")
    for nn, b, s in p.terms:
        if eq(nn, n) and b(j) == fam(lo + j):
            return lambda jj, s=s: sp.sympify(s(jj))
    return None


class ProverView:
    def __init__(self, F):
        self.P = AN.prover_run(F)
        self.I = self.P["I"]
        self.proof = self.P["proof"]
        self.pad = REF.pad_of(n1 + n2)
        self.N = n1 + n2 + self.pad
        self.cond2 = None
        f = self.proof.fields
        self.sinks = {k: v for k, v in f.items() if k != "ipp_proof"}
        self.ipp = self.I.ipp_create_calls[0] if self.I.ipp_create_calls else None

    def phase2(self, v):
        """(value if n2>0, value otherwise) of a phase-2 sink"""
        if isinstance(v, Ite) and isinstance(v.cond, Cond) and v.cond.op == "lt" and eq(v.cond.a, 0) and eq(v.cond.b, n2):
            self.cond2 = v.cond
            return (v.a, v.b) if not v.cond.neg else (v.b, v.a)
        return None


def check_commitments(ck, F, rule="R01.1"):
    """A_I, A_O, S of both phases; returns the nonce table read off the sinks"""
    pv = ProverView(F)
    where = "src/r1cs/prover.rs (prove_and_return_transcript)"
    nz = {}
    s = pv.sinks

    def need_pt(name, v):
        if not isinstance(v, Pt):
            ck.fail(rule, name, f"sink {name} is not a group term: {v!r}", where)
            return False
        return True

    # phase 1
    for name, terms in (("A_I1", (("G", aL), ("H", aR))), ("A_O1", (("G", aO),)), ("S1", None)):
        v = s.get(name)
        if not need_pt(name, v):
            continue
        rho = pt_coeff(v, Bb)
        nz["rho_" + name] = rho
        if terms is None:
            fL = pt_vec_coeff(v, G, 0, n1)
            fR = pt_vec_coeff(v, Hh, 0, n1)
            nz["sL1"], nz["sR1"] = fL, fR
            want = Pt([(sp.Integer(1), lambda j: Bb, lambda j: rho), (n1, lambda j: G(j), fL or (lambda j: sp.Integer(0))), (n1, lambda j: Hh(j), fR or (lambda j: sp.Integer(0)))])
            ok = fL is not None and fR is not None and pt_eq(v, want)
        else:
            tl = [(sp.Integer(1), lambda j: Bb, lambda j: rho)]
            for fam, fn in terms:
                famf = G if fam == "G" else Hh
                tl.append((n1, (lambda j, famf=famf: famf(j)), (lambda j, fn=fn: fn(j))))
            ok = pt_eq(v, Pt(tl))
        ck.require(ok, rule, name, f"{name} must be <witness,generators over [0,n1)> + nonce*B_blinding; extracted {v!r}", where, detail=repr(v)[:200])
    # phase 2
    for name, terms in (("A_I2", (("G", aL), ("H", aR))), ("A_O2", (("G", aO),)), ("S2", None)):
        v = s.get(name)
        ph = pv.phase2(v)
        if ph is None:
            ck.fail(rule, name, f"{name} must be ite(n2>0, commitment over [n1,n), identity); extracted {v!r}", where)
            continue
        on, offv = ph
        if not (isinstance(on, Pt) and isinstance(offv, Pt)):
            ck.fail(rule, name, f"{name}: branches are not group terms", where)
            continue
        rho = pt_coeff(on, Bb)
        nz["rho_" + name] = rho
        if terms is None:
            fL = pt_vec_coeff(on, G, n1, n2)
            fR = pt_vec_coeff(on, Hh, n1, n2)
            nz["sL2"], nz["sR2"] = fL, fR
            want = Pt([(sp.Integer(1), lambda j: Bb, lambda j: rho), (n2, lambda j: G(n1 + j), fL or (lambda j: sp.Integer(0))), (n2, lambda j: Hh(n1 + j), fR or (lambda j: sp.Integer(0)))])
            ok = fL is not None and fR is not None and pt_eq(on, want)
        else:
            tl = [(sp.Integer(1), lambda j: Bb, lambda j: rho)]
            for fam, fn in terms:
                famf = G if fam == "G" else Hh
                tl.append((n2, (lambda j, famf=famf: famf(n1 + j)), (lambda j, fn=fn: fn(n1 + j))))
            ok = pt_eq(on, Pt(tl))
        ok = ok and pt_eq(offv, Pt([]))
        ck.require(ok, rule, name, f"{name} must be the phase-2 commitment over [n1,n) when n2>0 and the identity otherwise; extracted {v!r}", where, detail=repr(on)[:200])
    pv.nz = nz
    return pv


def lr_reference(pv):
    """l(x), r(x) padded to N (the inner-product arguments)"""
    nz = pv.nz
    sL1, sR1, sL2, sR2 = nz.get("sL1"), nz.get("sR1"), nz.get("sL2"), nz.get("sR2")
    if None in (sL1, sR1, sL2, sR2):
        return None
    pad = pv.pad

    def l_at(i, sL):
        return X * (aL(i) + Y ** (-i) * wR(i)) + X**2 * aO(i) + X**3 * sL

    def r_at(i, sR):
        return (wO(i) - Y**i) + X * (Y**i * aR(i) + wL(i)) + X**3 * Y**i * sR

    lvec = Vec([Seg(n1, lambda j: Sc(l_at(j, sL1(j)))), Seg(n2, lambda j: Sc(l_at(n1 + j, sL2(j)))), Seg(pad, lambda j: Sc(0))])
    rvec = Vec([Seg(n1, lambda j: Sc(r_at(j, sR1(j)))), Seg(n2, lambda j: Sc(r_at(n1 + j, sR2(j)))), Seg(pad, lambda j: Sc(-(Y ** (n1 + n2 + j))))])
    return lvec, rvec


def check_ipp_args(ck, F, pv, rule="R01.1"):
    where = "src/r1cs/prover.rs (arguments of InnerProductProof::create)"
    c = pv.ipp
    if c is None:
        ck.fail(rule, "ipp:call", "prove does not call InnerProductProof::create", where)
        return
    pad = pv.pad
    N = pv.N
    q = c["Q"]
    ck.require(isinstance(q, Pt) and pt_eq(q, Pt.atom(B).scale(W)), rule, "ipp:Q", f"Q must be w*B (B of the constructor's pc_gens); extracted {q!r}", where)
    gf = Vec([Seg(n1, lambda j: Sc(1)), Seg(n2 + pad, lambda j: Sc(U))])
    hf = Vec([Seg(n1, lambda j: Sc(Y ** (-j))), Seg(n2 + pad, lambda j: Sc(U * Y ** (-(n1 + j))))])
    for nm, got, want in (("ipp:G_factors", c["G_factors"], gf), ("ipp:H_factors", c["H_factors"], hf)):
        why = []
        ck.require(isinstance(got, Vec) and vec_eq(got, want, why), rule, nm, f"{nm[4:]} must be {show(want)}; extracted {show(got) if isinstance(got, Vec) else got!r}; {why}", where)
    from .harness import pt_vec

    for nm, got, fam in (("ipp:G_vec", c["G_vec"], "G"), ("ipp:H_vec", c["H_vec"], "H")):
        why = []
        ck.require(isinstance(got, Vec) and vec_eq(got, pt_vec(fam, N), why), rule, nm, f"{nm[4:]} must be the first N={N} generators of party 0; extracted {show(got) if isinstance(got, Vec) else got!r}; {why}", where)
    lr = lr_reference(pv)
    if lr is None:
        ck.fail(rule, "ipp:l_vec", "masking vectors could not be read off S1/S2", where)
        return
    for nm, got, want in (("ipp:l_vec", c["a_vec"], lr[0]), ("ipp:r_vec", c["b_vec"], lr[1])):
        why = []
        ck.require(isinstance(got, Vec) and vec_eq(got, want, why), rule, nm, f"{nm[4:]} must be the reference vector polynomial evaluated at x, padded to N; {'; '.join(why)}", where, detail=show(want)[:240])
    ck.require(c["transcript"] is pv.P["prover"].fields["transcript"], rule, "ipp:transcript", "create must run on the system's own transcript", where)


def check_t(ck, F, pv, rule="R01.1"):
    """t_x = <l(x), r(x)> (closed rule), T_k = coeff_k * B + tau_k * B~, t_x_blinding, e_blinding"""
    where = "src/r1cs/prover.rs"
    s = pv.sinks
    nz = pv.nz
    lr = lr_reference(pv)
    tx = s.get("t_x")
    if lr is None or not isinstance(tx, Sc):
        ck.fail(rule, "t_x", f"t_x is not a scalar term or l/r unavailable: {tx!r}", where)
        return
    k = isym("_k")
    n = n1 + n2
    lvec, rvec = lr
    tot = sp.Integer(0)
    for (sl, sr) in zip(lvec.segs[:2], rvec.segs[:2]):
        kk = isym("_kk")
        tot += mk_sum(sl.n, sp.expand(sl.f(kk).e * sr.f(kk).e), kk)
    ok = eq(tx.e, tot)
    ck.require(ok, rule, "t_x", "t_x must equal <l(x), r(x)> over the n real gates (closed rule: t_k = sum_{i+j=k} <l_i, r_j>)", where, detail="t(x) = <l(x),r(x)> as a polynomial identity in x")
    txe = canon_sums(sp.expand(tot))
    taus = {}
    for kq in (1, 3, 4, 5, 6):
        name = f"T_{kq}"
        v = s.get(name)
        if not isinstance(v, Pt):
            ck.fail(rule, name, f"{name} is not a group term: {v!r}", where)
            continue
        tau = pt_coeff(v, Bb)
        taus[kq] = tau
        tk = pt_coeff(v, B)
        want = sp.expand(txe).coeff(X, kq)
        okk = eq(tk, want) and pt_eq(v, Pt.atom(B).scale(tk).add(Pt.atom(Bb).scale(tau)))
        ck.require(okk, rule, name, f"{name} must be t_{kq}*B + tau_{kq}*B_blinding with t_{kq} the x^{kq} coefficient of <l(x),r(x)>", where, detail=f"tau_{kq} = {tau}")
    nz["taus"] = taus
    # x^0 and x^2 .. : t has no constant term
    ck.require(eq(sp.expand(txe).coeff(X, 0), 0), rule, "t_0", "t(x) must have no constant term", where)
    # t_x_blinding
    tb = s.get("t_x_blinding")
    kk = isym("_kk")
    want = sum(taus.get(q, 0) * X**q for q in (1, 3, 4, 5, 6)) + X**2 * mk_sum(m, wV(kk) * vb(kk), kk)
    ck.require(isinstance(tb, Sc) and len(taus) == 5 and eq(tb.e, want), rule, "t_x_blinding", f"t_x_blinding must be sum tau_k x^k + x^2 <wV, v_blinding>; extracted {tb!r}", where)
    # e_blinding
    eb = s.get("e_blinding")
    r = nz
    ok = False
    if isinstance(eb, Ite) and pv.cond2 is not None and eb.cond.key() == pv.cond2.key() or (isinstance(eb, Ite) and pv.cond2 is not None and eb.cond.key() == pv.cond2.negate().key()):
        on, offv = (eb.a, eb.b) if not eb.cond.neg else (eb.b, eb.a)
        rI, rO, rS = r.get("rho_A_I1"), r.get("rho_A_O1"), r.get("rho_S1")
        rI2, rO2, rS2 = r.get("rho_A_I2"), r.get("rho_A_O2"), r.get("rho_S2")
        if None not in (rI, rO, rS, rI2, rO2, rS2) and isinstance(on, Sc) and isinstance(offv, Sc):
            w_on = X * ((rI + U * rI2) + X * ((rO + U * rO2) + X * (rS + U * rS2)))
            w_off = X * (rI + X * (rO + X * rS))
            ok = eq(on.e, w_on) and eq(offv.e, w_off)
    ck.require(ok, rule, "e_blinding", f"e_blinding must be x(rho_I + x(rho_O + x rho_S)) with rho_* = phase-1 nonce + u * phase-2 nonce (0 without phase 2); extracted {eb!r}", where)


# -- C09 ------------------------------------------------------------------------------------


def draw_atoms_of(e):
    out = set()
    for a in sp.sympify(e).atoms(sp.Symbol) | sp.sympify(e).atoms(sp.Function):
        nm = str(a.func) if a.is_Function else str(a)
        if nm.startswith("trng.d") or nm.startswith("ext.d") or ".d" in nm and not nm.startswith("ch["):
            out.add(a)
    return out


def check_rng(ck, F, pv, rule="R09.1"):
    where = "src/r1cs/prover.rs"
    I = pv.I
    draws = [d for d in I.draw_log if getattr(d["rng"], "kind", "") != "chacha_seeded"]
    rngs = {id(d["rng"]): d["rng"] for d in draws}
    ck.require(len(rngs) == 1, rule, "single-rng", f"all prover nonces must come from one RNG value; found {[repr(r) for r in rngs.values()]}", where)
    rng = next(iter(rngs.values())) if rngs else None
    if not isinstance(rng, RngV) or rng.kind != "transcript_rng":
        ck.fail(rule, "transcript-rng", f"the prover's RNG must be Merlin's TranscriptRng built from the transcript; found {rng!r}", where)
        return
    b = rng.info["builder"]
    ext = rng.info["external"]
    ck.require(isinstance(ext, RngV) and ext is pv.P["ext_rng"], rule, "external-randomness", f"finalize() must be given the caller's RNG parameter; got {ext!r}", rng.info.get("where", where))
    ck.require(isinstance(b, RngBuilder) and isinstance(b.tr, Tr) and b.tr is pv.P["prover"].fields["transcript"], rule, "built-from-transcript", "the RNG builder must come from the system's own transcript", where)
    # built after `m` was absorbed and before the first commitment
    flat = AN.flat_trace(I.trace.items)
    pos_build = next((i for i, (it, _) in enumerate(flat) if it[0] == "build_rng"), None)
    pos_m = next((i for i, (it, _) in enumerate(flat) if it[0] == "op" and it[1]["label"] == b"m"), None)
    pos_first = next((i for i, (it, _) in enumerate(flat) if it[0] == "op" and it[1]["label"] == b"A_I1"), None)
    ck.require(None not in (pos_build, pos_m, pos_first) and pos_m < pos_build < pos_first, rule, "rng-position", f"build_rng must sit between absorbing m and the first commitment (positions m={pos_m}, build={pos_build}, A_I1={pos_first})", where)
    # rekey: once per element of secrets.v_blinding, full encoding
    rk = b.rekeys if isinstance(b, RngBuilder) else []
    ok = len(rk) == 1
    why = f"{len(rk)} rekey site(s)"
    if ok:
        r0 = rk[0]
        pl = r0["payload"]
        ok = r0["label"] == b"v_blinding" and len(r0["idx"]) == 1 and eq(r0["loop_n"][0], m)
        ok = ok and hasattr(pl, "parts") and len(pl.parts) == 1 and pl.parts[0][0] == "uncompressed" and isinstance(pl.parts[0][1], Sc) and eq(pl.parts[0][1].e, vb(r0["idx"][0]))
        why = f"label={r0['label']} loop={r0['loop_n']} payload={pl!r}"
    ck.require(ok, rule, "rekey-v_blinding", f"the RNG must be rekeyed with the full encoding of every commitment blinding factor (label v_blinding, loop over all m); {why}", where)


def check_nonces(ck, F, pv, rule="R09.2"):
    where = "src/r1cs/prover.rs"
    nz = pv.nz
    I = pv.I
    logged = {str(d["atom"].func) if d["atom"].is_Function else str(d["atom"]): d for d in I.draw_log if getattr(d["rng"], "kind", "") != "chacha_seeded"}
    scal = {}
    for key in ("rho_A_I1", "rho_A_O1", "rho_S1", "rho_A_I2", "rho_A_O2", "rho_S2"):
        scal[key] = nz.get(key)
    for q, t in (nz.get("taus") or {}).items():
        scal[f"tau_{q}"] = t
    seen = {}
    for key, e in scal.items():
        ok = e is not None and sp.sympify(e).is_Symbol and str(e) in logged and logged[str(e)]["kind"] == "scalar" and not logged[str(e)]["idx"]
        ck.require(ok, rule, f"fresh:{key}", f"the blinding scalar {key} must be exactly one fresh draw from the prover RNG (coefficient 1 on B_blinding); found `{e}`", where, detail=str(e))
        if ok:
            seen.setdefault(str(e), []).append(key)
    dup = {a: ks for a, ks in seen.items() if len(ks) > 1}
    ck.require(not dup, rule, "distinct-scalars", f"blinding scalars share a draw: {dup}", where)
    ck.floor("scalar nonces", len([k for k, e in scal.items() if e is not None]), 11)
    # masking vectors: per-index draws
    j = isym("_j")
    vecs = {}
    for key in ("sL1", "sR1", "sL2", "sR2"):
        f = nz.get(key)
        e = sp.sympify(f(j)) if f is not None else None
        ok = e is not None and e.is_Function and str(e.func) in logged and logged[str(e.func)]["kind"] == "scalar" and len(logged[str(e.func)]["idx"]) == 1 and e.args == (j,)
        ck.require(ok, rule, f"fresh-vector:{key}", f"masking vector {key} must be one fresh draw per index; found `{e}`", where, detail=str(e))
        if ok:
            vecs.setdefault(str(e.func), []).append(key)
    dupv = {a: ks for a, ks in vecs.items() if len(ks) > 1}
    ck.require(not dupv and not (set(vecs) & set(seen)), rule, "distinct-vectors", f"masking vectors share draws: {dupv}", where)
    # every draw of the prover is used at most in its role: no unused-but-leaked check needed; but no sink may contain
    # a draw atom that is not one of the nonces above
    allowed = set(seen) | set(vecs)
    stray = set()
    for name, v in list(pv.sinks.items()):
        for e in exprs_of(v):
            for a in sp.sympify(e).atoms(sp.Symbol) | sp.sympify(e).atoms(sp.Function):
                nm = str(a.func) if a.is_Function else str(a)
                if nm in logged and nm not in allowed:
                    stray.add((name, nm))
    ck.require(not stray, rule, "no-stray-draws", f"sinks contain draws outside the protocol's nonce roles: {sorted(stray)}", where)


def exprs_of(v):
    j = isym("_j")
    if isinstance(v, Sc):
        yield v.e
    elif isinstance(v, Pt):
        for n, b, s in v.terms:
            yield s(j)
    elif isinstance(v, Ite):
        yield from exprs_of(v.a)
        yield from exprs_of(v.b)
    elif isinstance(v, Vec):
        for sg in v.segs:
            yield from exprs_of(sg.f(j))


def check_determinism(ck, F, pv, rule="R09.5"):
    """all atoms of all sinks are witness, weights, challenges, generators or logged draws"""
    where = "src/r1cs/prover.rs"
    I = pv.I
    logged = {str(d["atom"].func) if d["atom"].is_Function else str(d["atom"]) for d in I.draw_log}
    ok_prefix = ("aL", "aR", "aO", "wL", "wR", "wO", "wV", "vb", "v", "ch[", "SUM", "PROD", "_k", "_j", "n1", "n2", "pad", "m", "B", "Bb", "G", "H")
    bad = set()
    things = list(pv.sinks.items())
    if pv.ipp:
        things += [("ipp." + k, pv.ipp[k]) for k in ("Q", "G_factors", "H_factors", "a_vec", "b_vec")]
    for name, v in things:
        for e in exprs_of(v):
            for a in sp.sympify(e).atoms(sp.Symbol) | sp.sympify(e).atoms(sp.Function):
                nm = str(a.func) if a.is_Function else str(a)
                if nm in logged:
                    continue
                if not nm.startswith(ok_prefix):
                    bad.add((name, nm))
    ck.require(not bad, rule, "closed-inputs", f"sinks depend on inputs outside witness/statement/challenges/draws: {sorted(bad)[:6]}", where)


# -- R01.5: completeness identities between the *extracted* prover and the *extracted* verifier ----


def completeness_identities(ck, F, pv, rule="R01.5"):
    """Substitute the prover's extracted sinks into the verifier's extracted combined check.
    The inner-product part (terms in a, b, L, R) is replaced, by the folding theorem (trusted, C10),
    with  <l, gf o G> + <r, hf o H> + <l,r> w B.  What remains must vanish identically as a formal sum
    over the independent bases, except the B coefficient of the evaluation relation, which must be
    x^2 * ( <y^n, aL o aR - aO> + <wL,aL> + <wR,aR> + <wO,aO> - <wV,v> - wc ): zero exactly when the
    gates and the (z-flattened) linear constraints are satisfied."""
    from . import spec_ref as REF
    from .alg import Bounds

    where = "prover.rs x verifier.rs"
    A = AN.verifier_scalars(F)
    scal = A["scalars"]
    bnd = A["I"].bounds
    pad = pv.pad
    layout = REF.base_layout(pad)
    s = pv.sinks
    nz = pv.nz
    c = pv.ipp
    if c is None or lr_reference(pv) is None:
        ck.fail(rule, "inputs", "prover sinks unavailable", where)
        return
    # prover values for the proof's scalar fields (n2 > 0 branch; the n2 = 0 branch is the instance n2 := 0)
    def on(v):
        ph = pv.phase2(v)
        return ph[0] if ph else v

    subs = {pf("t_x"): s["t_x"].e, pf("t_x_blinding"): s["t_x_blinding"].e, pf("e_blinding"): on(s["e_blinding"]).e, pf("a"): 0, pf("b"): 0}
    pts = {"A_I1": s["A_I1"], "A_O1": s["A_O1"], "S1": s["S1"], "A_I2": on(s["A_I2"]), "A_O2": on(s["A_O2"]), "S2": on(s["S2"]), "T_1": s["T_1"], "T_3": s["T_3"], "T_4": s["T_4"], "T_5": s["T_5"], "T_6": s["T_6"]}
    j = isym("_j")
    R_ = REF.R
    # one common non-zero factor of the whole check is allowed (e.g. the negated equation): lam = actual_B / reference_B
    refB = sp.sympify(REF.combined(pad)[0][2](0))
    actB = scal.index(sp.Integer(0), bnd).e
    lam = sp.simplify(sp.expand(actB) / sp.expand(refB))
    if lam.free_symbols - {x_ for x_ in lam.free_symbols if str(x_).startswith("ch[")} or lam == 0:
        ck.fail(rule, "common-factor", f"verifier's B scalar is not a multiple of the reference by a challenge-only factor: ratio {lam}", where)
        return
    acc = {0: [], 1: []}  # formal-sum terms per power of r
    coefB = {0: sp.Integer(0), 1: sp.Integer(0)}
    coefBb = {0: sp.Integer(0), 1: sp.Integer(0)}
    off = sp.Integer(0)

    def split_r(e):
        e = sp.expand(sp.sympify(e).xreplace(subs))
        c0 = e.subs(R_, 0)
        c1 = sp.expand(sp.diff(e, R_)).subs(R_, 0)
        return sp.expand(c0), sp.expand(c1), sp.expand(e - c0 - R_ * c1)

    kk = isym("_kk")
    for name, n, bf in layout:
        n = sp.sympify(n)
        part = scal.slice(off, sp.expand(off + n), bnd)
        off = sp.expand(off + n)
        if name in ("L", "R"):
            continue
        sub_off = sp.Integer(0)
        for sg in part.nonempty_segs():
            def e_at(jj, sg=sg):
                v_ = sg.f(jj)
                while isinstance(v_, Ite):  # identities are stated for the general case n2 > 0 (n2 = 0 is an instance)
                    ph_ = pv.phase2(v_)
                    if ph_ is None:
                        raise Unanalysable(f"verifier scalar is conditional on {v_.cond}")
                    v_ = ph_[0]
                return v_.e

            if name == "B":
                c0, c1, rest = split_r(e_at(sp.Integer(0)))
                coefB[0] += c0
                coefB[1] += c1
            elif name == "B_blinding":
                c0, c1, rest = split_r(e_at(sp.Integer(0)))
                coefBb[0] += c0
                coefBb[1] += c1
            elif name.startswith(("G[", "H[")):
                fam = G if name.startswith("G[") else Hh
                base_lo = {"[0,n1)": sp.Integer(0), "[n1,n)": n1, "[n,N)": n1 + n2}[name[1:]] + sub_off
                for pw in (0, 1):
                    acc[pw].append((sg.n, (lambda jj, fam=fam, base_lo=base_lo: fam(base_lo + jj)), (lambda jj, e_at=e_at, pw=pw: split_r(e_at(jj))[pw])))
            elif name == "V":
                c0, c1, rest = split_r(e_at(kk))
                for pw, cc in ((0, c0), (1, c1)):
                    coefB[pw] += mk_sum(sg.n, cc * sfun("v")(sub_off + kk), kk)
                    coefBb[pw] += mk_sum(sg.n, cc * vb(sub_off + kk), kk)
            else:
                P = pts[name]
                c0, c1, rest = split_r(e_at(sp.Integer(0)))
                for pw, cc in ((0, c0), (1, c1)):
                    if cc != 0:
                        acc[pw] += P.scale(cc).terms
            sub_off = sp.expand(sub_off + sg.n)
    # subtract the inner-product statement the prover hands to create: <l, gf o G> + <r, hf o H> + <l,r> w B  (r^0 part)
    from .alg import zip_vecs

    for vec, fac, fam in ((c["a_vec"], c["G_factors"], G), (c["b_vec"], c["H_factors"], Hh)):
        z = zip_vecs(vec, fac, bnd)
        o2 = sp.Integer(0)
        for sg in z.nonempty_segs():
            acc[0].append((sg.n, (lambda jj, fam=fam, o2=o2: fam(o2 + jj)), (lambda jj, sg=sg: -lam * sg.f(jj).items[0].e * sg.f(jj).items[1].e)))
            o2 = sp.expand(o2 + sg.n)
    coefB[0] += -lam * W * s["t_x"].e
    # ---- r^0: opening relation vanishes identically
    F0 = Pt(acc[0] + [(sp.Integer(1), lambda jj: B, lambda jj: coefB[0]), (sp.Integer(1), lambda jj: Bb, lambda jj: coefBb[0])])
    res0 = {k: v for k, v in F0.canon().items() if not eq(v, 0)}
    ck.require(not res0, rule, "opening-relation", f"with the prover's A_I, A_O, S, e_blinding, l(x), r(x) and factor vectors substituted, the verifier's opening relation must reduce to the inner-product statement handed to `create`; residual terms: {[(k[0][:40], str(v)[:80]) for k, v in list(res0.items())[:3]]}", where, detail="formal sum over B, B~, G_i, H_i vanishes (mod folding theorem)")
    # ---- r^1: evaluation relation
    F1 = Pt(acc[1] + [(sp.Integer(1), lambda jj: Bb, lambda jj: coefBb[1])])
    totalB = sp.expand(coefB[1] + pt_coeff(Pt(acc[1]), B))
    res1 = {k: v for k, v in F1.canon().items() if not eq(v, 0) and k[0] != sp.srepr(B)}
    ck.require(not res1, rule, "evaluation-relation:blinding", f"B_blinding / generator coefficients of the evaluation relation must cancel with the prover's tau_k and t_x_blinding; residual: {[(k[0][:40], str(v)[:80]) for k, v in list(res1.items())[:3]]}", where)
    nn = n1 + n2
    gate = mk_sum(nn, Y**kk * (aL(kk) * aR(kk) - aO(kk)), kk)
    lin = mk_sum(nn, wL(kk) * aL(kk) + wR(kk) * aR(kk) + wO(kk) * aO(kk), kk) - mk_sum(m, wV(kk) * sfun("v")(kk), kk) - REF.wc
    want = -lam * (X**2) * (gate + lin)
    ck.require(eq(totalB, want), rule, "evaluation-relation:value", "the B coefficient of the evaluation relation must be -x^2 ( <y^n, aL o aR - aO> + <wL,aL>+<wR,aR>+<wO,aO> - <wV,v> - wc ): it vanishes exactly when gates and flattened constraints are satisfied", where, detail="t_2 = delta + wc + <wV,v> under satisfaction")

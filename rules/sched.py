"""SCHED engine: transcript schedules as regular languages.

A structured effect trace (sequence / alternative / star, as produced by the TERM interpreter)
is turned into a regular expression over transcript symbols (op, label, payload role); two
schedules are compared by DFA language equivalence; binding order is a must-precede check.
"""
import itertools

import sympy as sp

from .alg import Bytes, Cond, IntV, Pt, Sc, Val, isym, pt_eq, val_eq, eq


# -- symbols ---------------------------------------------------------------------------


def strip_index(name):
    """pf.L(j#3) -> pf.L[*]"""
    i = name.find("(")
    return name if i < 0 else name[:i] + "[*]"


def atom_name(v):
    """name of a value that is exactly one atom (point or scalar), else None"""
    if isinstance(v, Pt):
        if len(v.terms) == 1:
            n, b, s = v.terms[0]
            j = isym("_j")
            if n == 1 and sp.expand(s(j)) == 1:
                return strip_index(str(b(j)))
        if not v.terms:
            return "identity"
        return None
    if isinstance(v, Sc):
        e = sp.expand(v.e)
        if e.is_Symbol or (e.is_Function and not e.func.__name__ in ("SUM", "PROD")):
            return strip_index(str(e))
        return None
    return None


class RoleMap:
    """maps payload values to role names; for the prover the role of a value is the proof
    field (of the returned proof) that the same value reaches"""

    def __init__(self, fields=None):
        self.fields = fields or []  # list of (role name, value)

    def role_of(self, v):
        n = atom_name(v)
        if n is not None and not self.fields:
            return n
        for name, fv in self.fields:
            try:
                if val_eq(v, fv):
                    return name
            except Exception:
                pass
        if n is not None:
            return n
        return "expr:" + (repr(v)[:60])


def symbol(op, roles, validated=False):
    """(kind, label, role) of one transcript operation record"""
    kind = op["kind"]
    label = op["label"].decode(errors="replace") if op["label"] is not None else "<non-literal>"
    p = op.get("payload")
    if kind == "append_message":
        if isinstance(p, Bytes) and len(p.parts) == 1:
            pk = p.parts[0][0]
            if pk == "lit":
                return ("append_message", label, "const:" + p.parts[0][1].decode(errors="replace"))
            if pk in ("uncompressed", "compressed"):
                v = p.parts[0][1]
                enc = "" if pk == "uncompressed" else "COMPRESSED:"
                from .alg import Ite

                probe = v
                while isinstance(probe, Ite):
                    probe = probe.a
                if isinstance(v, Ite) and isinstance(probe, Pt):
                    return ("append_point", label, enc + "point:" + roles.role_of(v))
                if isinstance(v, Ite) and isinstance(probe, Sc):
                    return ("append_scalar", label, enc + "scalar:" + roles.role_of(v))
                if isinstance(v, Pt):
                    return ("append_point", label, enc + "point:" + roles.role_of(v))
                if isinstance(v, Sc):
                    return ("append_scalar", label, enc + "scalar:" + roles.role_of(v))
        return ("append_message", label, "bytes:" + repr(p)[:80])
    if kind == "append_u64":
        if isinstance(p, IntV):
            return ("append_u64", label, "int:" + str(sp.expand(p.e)))
        return ("append_u64", label, "int:?" + repr(p)[:40])
    if kind == "challenge_bytes":
        return ("challenge", label, "")
    return (kind, label, "?")


# -- regex AST over symbols ----------------------------------------------------------------
# ('sym', s) | ('seq', [..]) | ('alt', a, b) | ('star', a) | ('eps',)


def _zero_test(c):
    """(symbol, zero-side-is-then) for a condition `n == 0` / `n != 0` / `0 < n` on a plain count symbol, else None"""
    from .alg import Cond

    if not isinstance(c, Cond) or c.a is None or c.b is None:
        return None
    a, b = sp.sympify(c.a), sp.sympify(c.b)
    if c.op == "eq":
        for x, y in ((a, b), (b, a)):
            if y == 0 and x.is_Symbol:
                return x, not c.neg
    if c.op == "lt" and a == 0 and b.is_Symbol:  # 0 < n
        return b, c.neg
    return None


def to_regex(items, roles, tr_filter, collect=None):
    """structured trace -> regex over the ops of transcripts accepted by tr_filter(tr)"""
    seq = []
    items = list(items)
    for pos, it in enumerate(items):
        k = it[0]
        if k == "alt" and isinstance(it[1], Cond):
            # two branches on the same condition are taken the same way (a branch split over a helper and its caller)
            base = it[1].key().lstrip("!")
            rest = items[pos + 1:]
            q = next((i_ for i_, r in enumerate(rest) if r[0] == "alt" and isinstance(r[1], Cond) and r[1].key().lstrip("!") == base), None)
            if q is not None:
                second = rest[q]
                same = second[1].neg == it[1].neg
                then2, else2 = (second[2], second[3]) if same else (second[3], second[2])
                a = to_regex(list(it[2]) + rest[:q] + list(then2) + rest[q + 1:], roles, tr_filter, collect)
                b = to_regex(list(it[3]) + rest[:q] + list(else2) + rest[q + 1:], roles, tr_filter, collect)
                seq.append(a if a == b else ("alt", a, b))
                break
        if k == "alt" and _zero_test(it[1]) is not None:
            # path sensitivity for `if n == 0 { A } else { B }` followed by a loop over n iterations: on the n == 0 side the
            # loop does not run (a branch extracted into a helper must not read as "A, then user callbacks")
            n_, zero_is_then = _zero_test(it[1])
            rest = items[pos + 1:]
            is_loop = lambda r: r[0] == "star" and isinstance(r[2], dict) and r[2].get("n") is not None and sp.expand(sp.sympify(r[2]["n"]) - n_) == 0
            if any(is_loop(r) for r in rest):
                zero_side, other_side = (it[2], it[3]) if zero_is_then else (it[3], it[2])
                a = to_regex(list(zero_side) + [r for r in rest if not is_loop(r)], roles, tr_filter, collect)
                b = to_regex(list(other_side) + rest, roles, tr_filter, collect)
                seq.append(a if a == b else ("alt", a, b))
                break
        if k == "op":
            d = it[1]
            if tr_filter(d["tr"]):
                s = symbol(d, roles)
                seq.append(("sym", s))
                if collect is not None:
                    collect.append((s, d))
        elif k == "user":
            if tr_filter(it[1]["tr"]) and tr_filter(it[1].get("tr_challenge", it[1]["tr"])):
                seq.append(("sym", ("USER", "", "")))
        elif k == "star":
            inner = to_regex(it[1], roles, tr_filter, collect)
            if inner != ("eps",):
                seq.append(("star", inner))
        elif k == "alt":
            a = to_regex(it[2], roles, tr_filter, collect)
            b = to_regex(it[3], roles, tr_filter, collect)
            if a == b:
                if a != ("eps",):
                    seq.append(a)
            else:
                seq.append(("alt", a, b))
        elif k == "splice":
            seq.append(it[1])
    seq = [x for x in seq if x != ("eps",)]
    if not seq:
        return ("eps",)
    if len(seq) == 1:
        return seq[0]
    return ("seq", seq)


def show_regex(r):
    k = r[0]
    if k == "eps":
        return "eps"
    if k == "sym":
        s = r[1]
        if s[0] == "USER":
            return "USER"
        if s[0] == "challenge":
            return f"<{s[1]}>"
        return f"{s[1]}:{s[2]}" if s[2] else s[1]
    if k == "seq":
        return " ".join(show_regex(x) for x in r[1])
    if k == "alt":
        return "(" + show_regex(r[1]) + " | " + show_regex(r[2]) + ")"
    if k == "star":
        return "(" + show_regex(r[1]) + ")*"
    return "?"


def symbols_of(r, out=None):
    out = set() if out is None else out
    k = r[0]
    if k == "sym":
        out.add(r[1])
    elif k == "seq":
        for x in r[1]:
            symbols_of(x, out)
    elif k == "alt":
        symbols_of(r[1], out)
        symbols_of(r[2], out)
    elif k == "star":
        symbols_of(r[1], out)
    return out


# -- automata ---------------------------------------------------------------------------------


class NFA:
    def __init__(self):
        self.n = 0
        self.eps = {}
        self.tr = {}

    def new(self):
        self.n += 1
        return self.n - 1

    def add_eps(self, a, b):
        self.eps.setdefault(a, set()).add(b)

    def add(self, a, s, b):
        self.tr.setdefault((a, s), set()).add(b)


def build(nfa, r):
    k = r[0]
    if k == "eps":
        a = nfa.new()
        return a, a
    if k == "sym":
        a, b = nfa.new(), nfa.new()
        nfa.add(a, r[1], b)
        return a, b
    if k == "seq":
        first = last = None
        for x in r[1]:
            a, b = build(nfa, x)
            if first is None:
                first = a
            else:
                nfa.add_eps(last, a)
            last = b
        return first, last
    if k == "alt":
        a, b = nfa.new(), nfa.new()
        for x in (r[1], r[2]):
            xa, xb = build(nfa, x)
            nfa.add_eps(a, xa)
            nfa.add_eps(xb, b)
        return a, b
    if k == "star":
        a, b = nfa.new(), nfa.new()
        xa, xb = build(nfa, r[1])
        nfa.add_eps(a, xa)
        nfa.add_eps(xb, b)
        nfa.add_eps(a, b)
        nfa.add_eps(xb, xa)
        return a, b
    raise ValueError(k)


def closure(nfa, states):
    st = set(states)
    work = list(states)
    while work:
        s = work.pop()
        for t in nfa.eps.get(s, ()):
            if t not in st:
                st.add(t)
                work.append(t)
    return frozenset(st)


class DFA:
    def __init__(self, regex, alphabet):
        nfa = NFA()
        a, b = build(nfa, regex)
        self.alphabet = sorted(alphabet)
        self.start = closure(nfa, [a])
        self.trans = {}
        self.accept = set()
        seen = {self.start}
        work = [self.start]
        while work:
            S = work.pop()
            if b in S:
                self.accept.add(S)
            for sym in self.alphabet:
                T = set()
                for s in S:
                    T |= nfa.tr.get((s, sym), set())
                if not T:
                    continue
                T = closure(nfa, T)
                self.trans[(S, sym)] = T
                if T not in seen:
                    seen.add(T)
                    work.append(T)
        self.states = seen


def equivalent(r1, r2):
    """language equivalence; returns (True, None) or (False, distinguishing word)"""
    alpha = symbols_of(r1) | symbols_of(r2)
    d1, d2 = DFA(r1, alpha), DFA(r2, alpha)
    start = (d1.start, d2.start)
    seen = {start: ()}
    work = [start]
    while work:
        a, b = work.pop(0)
        word = seen[(a, b)]
        acc1 = a in d1.accept if a is not None else False
        acc2 = b in d2.accept if b is not None else False
        if acc1 != acc2:
            # first position at which one automaton has left its language's prefixes
            x, y = d1.start, d2.start
            div = len(word)
            for i, sym in enumerate(word):
                x = d1.trans.get((x, sym)) if x is not None else None
                y = d2.trans.get((y, sym)) if y is not None else None
                if x is None or y is None:
                    div = i
                    break
            return False, (word[: div + 1], ("only the first allows this next symbol" if (y is None and x is not None) else "only the second allows this next symbol") if div < len(word) else ("first accepts here, second does not" if acc1 else "second accepts here, first does not"))
        for sym in d1.alphabet:
            na = d1.trans.get((a, sym)) if a is not None else None
            nb = d2.trans.get((b, sym)) if b is not None else None
            if na is None and nb is None:
                continue
            key = (na, nb)
            if key not in seen:
                seen[key] = word + (sym,)
                work.append(key)
    return True, None


def must_precede(regex, target_pred):
    """for each symbol s satisfying target_pred: the set of symbols that occur on ALL accepting
    paths before every occurrence of s (DFA forward dataflow, intersection)."""
    alpha = symbols_of(regex)
    d = DFA(regex, alpha)
    # states that can reach acceptance
    rev = {}
    for (S, sym), T in d.trans.items():
        rev.setdefault(T, set()).add(S)
    live = set(d.accept)
    work = list(d.accept)
    while work:
        S = work.pop()
        for P in rev.get(S, ()):
            if P not in live:
                live.add(P)
                work.append(P)
    full = frozenset(alpha)
    before = {S: None for S in d.states}
    before[d.start] = frozenset()
    changed = True
    while changed:
        changed = False
        for (S, sym), T in d.trans.items():
            if before[S] is None or S not in live or T not in live:
                continue
            cand = before[S] | {sym}
            new = cand if before[T] is None else (before[T] & cand)
            if new != before[T]:
                before[T] = new
                changed = True
    out = {}
    for (S, sym), T in d.trans.items():
        if target_pred(sym) and before[S] is not None and S in live and T in live:
            out[sym] = before[S] if sym not in out else (out[sym] & before[S])
    return out

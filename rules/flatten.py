"""Summaries of the two hand-written `flattened_constraints` twins (R01.2, R02.2, R15.3).

The function is interpreted with `self.constraints` = a symbolic list of Q linear combinations, the
q-th having T(q) terms (var(q,t), coeff(q,t)).  The inner loop's `match var` is evaluated once per
`Variable` variant (finite case analysis on the enum tag); every indexed update is recorded as a
scatter effect (target vector, index, delta).  The summary is compared with the reference weights
    wL[i] += z^(q+1) c,  wR, wO likewise,  wV[i] -= z^(q+1) c,  verifier only: wc -= z^(q+1) c.
"""
import sympy as sp

from . import facts as FX
from . import harness as H
from .alg import Enum, IntV, Opaque, Sc, Seg, Struct, Tup, Unanalysable, Vec, eq, fresh, isym, sfun, ssym
from .interp import UNIT, subst_val

VARIANTS = ["Committed", "MultiplierLeft", "MultiplierRight", "MultiplierOutput", "One", "Phantom"]


def variants_from_items(F):
    adt = F.adts.get("r1cs::linear_combination::Variable")
    if adt is None:
        raise FX.AnchorMissing("r1cs::linear_combination::Variable")
    return [(v["name"], [f["ty"] for f in v["fields"]]) for v in adt["variants"]]


_SUM_CACHE = {}


def summarise(F, role):
    key = (id(F), role)
    if key not in _SUM_CACHE:
        try:
            _SUM_CACHE[key] = ("ok", _summarise(F, role))
        except Unanalysable as u:
            _SUM_CACHE[key] = ("err", u)
    st, v = _SUM_CACHE[key]
    if st == "err":
        raise v
    return v


def _summarise(F, role):
    site = H.flatten_site(F, role)
    path = site["path"]
    fn = F.fn(path)
    I = H.new_interp(F)
    Q = isym("Q")
    Tq = sfun("T")
    coeff = sfun("coeff")
    z = ssym("z")
    variants = variants_from_items(F)
    effects = []  # dicts: variant, kind(scatter|scalar), target, idx, delta, overwrite
    inits = {}  # weight vector -> its value before the first update
    inner_info = {"count": 0, "full": True, "where": None}

    def mk_lc(q):
        return Struct(
            "r1cs::linear_combination::LinearCombination",
            {"terms": Vec([Seg(Tq(q), lambda t, q=q: Tup([Opaque("varsym", q=q, t=t), Sc(coeff(q, t))]))])},
        )

    cons = Vec([Seg(Q, lambda q: mk_lc(q))])
    n, m = isym("n"), isym("m")
    if role == "verifier":
        self = Struct("r1cs::verifier::Verifier", {"constraints": cons, "num_vars": IntV(n), "V": H.pt_vec("V", m), "transcript": Opaque("tr"), "deferred_constraints": Opaque("d"), "pending_multiplier": Opaque("p")})
    else:
        sec = Struct("r1cs::prover::Secrets", {"a_L": H.sc_vec("aL", n), "a_R": H.sc_vec("aR", n), "a_O": H.sc_vec("aO", n), "v": H.sc_vec("v", m), "v_blinding": H.sc_vec("vb", m)})
        self = Struct("r1cs::prover::Prover", {"constraints": cons, "secrets": sec, "transcript": Opaque("tr"), "pc_gens": Opaque("pc"), "deferred_constraints": Opaque("d"), "pending_multiplier": Opaque("p")})

    def loop_hook(I_, pat, itv, body, env, e):
        segs = itv.vec.nonempty_segs() if itv.vec is not None else []
        if len(segs) != 1:
            return NotImplemented
        probe = segs[0].f(isym("_t"))
        if not (isinstance(probe, Tup) and isinstance(probe.items[0], Opaque) and probe.items[0].what == "varsym"):
            return NotImplemented
        # the inner loop over the terms of one linear combination
        inner_info["count"] += 1
        inner_info["where"] = FX.short(e.get("sp"))
        seg = segs[0]
        t = fresh("t", integer=True, nonnegative=True)
        elem = seg.f(t)
        q = elem.items[0].info["q"]
        if not eq(seg.n, Tq(q)):
            inner_info["full"] = False
        carried = I_.carried_vars(body, env)
        scal = {lid: I_.deref(env[lid]) for lid in carried if isinstance(I_.deref(env[lid]), Sc)}
        marks = {}

        def field_scalars():
            """scalar fields of local structs (a constant weight kept as `weights.constant`): path -> (holder, key, value)"""
            out = {}

            def visit(v, pth, d=0):
                if d > 3 or not isinstance(v, Struct):
                    return
                for k_, x in v.fields.items():
                    x = I_.deref(x) if not isinstance(x, (Struct, Sc)) else x
                    if isinstance(x, Sc):
                        out[f"{pth}.{k_}"] = (v, k_, x)
                    elif isinstance(x, Struct):
                        visit(x, f"{pth}.{k_}", d + 1)

            names = {}
            for n_ in FX.walk(body):
                if n_["k"] == "Path" and n_["res"].get("k") == "Local":
                    names[n_["res"]["id"]] = n_["res"].get("name")
            for lid_, v_ in env.items():
                if isinstance(v_, Struct) and not v_.path.endswith(("Verifier", "Prover")):
                    visit(v_, names.get(lid_) or str(lid_))
            return out

        fmarks = {}
        for name, ftys in variants:
            payload = []
            if ftys and ftys[0] == "usize":
                payload = [IntV(isym("i"))]
            elif ftys:
                payload = [Opaque("phantom")]
            var = Enum("r1cs::linear_combination::Variable", name, payload)
            snap = I_.snapshot(env)
            fs_before = field_scalars()
            I_.scatter = []
            try:
                I_.bind(pat, Tup([var, elem.items[1]]), env)
                I_.run_body(body, env)
                for rec in I_.scatter:
                    v = rec["value"]
                    if not isinstance(v, Sc):
                        raise Unanalysable("non-scalar scatter value")
                    delta = sp.expand(v.e - rec["old"])
                    effects.append({"variant": name, "kind": "scatter", "target": rec["target"], "root": rec["root"], "idx": rec["idx"], "delta": delta, "overwrite": delta.has(rec["old"]), "where": rec["where"]})
                fs_after = field_scalars()
                for pth, (holder0, key0, before) in fs_before.items():
                    if pth in fs_after and isinstance(fs_after[pth][2], Sc):
                        d = sp.expand(fs_after[pth][2].e - before.e)
                        if d != 0:
                            effects.append({"variant": name, "kind": "scalar", "target": pth, "root": pth, "idx": None, "delta": d, "overwrite": d.has(*before.e.free_symbols) if before.e.free_symbols else False, "where": FX.short(e.get("sp"))})
                            fmarks[pth] = True
                for lid, before in scal.items():
                    after = I_.deref(env[lid])
                    if not isinstance(after, Sc):
                        raise Unanalysable("carried scalar changed kind")
                    d = sp.expand(after.e - before.e)
                    if d != 0:
                        effects.append({"variant": name, "kind": "scalar", "target": carried[lid], "root": lid, "idx": None, "delta": d, "overwrite": d.has(*before.e.free_symbols) if before.e.free_symbols else False, "where": FX.short(e.get("sp"))})
                        marks[lid] = True
            finally:
                I_.scatter = None
                I_.restore(env, snap)
        # carried scalars written by some arm: advance symbolically so the outer loop sees a sum schema
        for lid in marks:
            env[lid] = Sc(I_.deref(env[lid]).e + sfun("FLATSUM:" + str(carried[lid]))(q))
        now = field_scalars()
        for pth in fmarks:
            holder, key, cur = now[pth]
            holder.fields[key] = Sc(cur.e + sfun("FLATSUM:" + pth)(q))
        I_.havoc_count += 1  # scatter effects are summarised, not applied: exempt from the loop-carried-state rule
        # mark scatter targets so that the returned tuple can be matched to its roles
        for ef in effects:
            if ef["kind"] == "scatter" and ef["root"] in env:
                # the target may be a local vector or a vector field of a local struct (`weights.wL`)
                holder, key = None, None
                cur = I_.deref(env[ef["root"]])
                for part in ef["target"].split(".")[1:]:
                    if isinstance(cur, Struct) and part in cur.fields:
                        holder, key, cur = cur, part, I_.deref(cur.fields[part])
                    elif isinstance(cur, Tup) and part.isdigit() and int(part) < len(cur.items):
                        holder, key, cur = cur, int(part), I_.deref(cur.items[int(part)])
                    else:
                        cur = None
                        break
                if isinstance(cur, Vec) and not isinstance(getattr(cur, "flat_tag", None), str):
                    inits[ef["target"]] = cur
                    nv = Vec.atom("FLAT:" + ef["target"], cur.length())
                    nv.flat_tag = ef["target"]
                    if holder is None:
                        env[ef["root"]] = nv
                    elif isinstance(holder, Struct):
                        holder.fields[key] = nv
                    else:
                        holder.items[key] = nv
        return None

    I.hooks["loop"] = loop_hook
    zref = Sc(z)
    if site["style"] == "method":
        call_args = [self, zref]
    else:
        # merged twins: a free function (constraints, z, sizes..).  Which size parameter is the gate count and which the
        # commitment count is read off the role's real call site (recorded by the harness hook during the role run)
        key = (id(F), role)
        if key not in H.FLAT_INT_ROLES:
            from . import analyses as AN

            try:
                (AN.prover_run if role == "prover" else AN.verifier_scalars)(F)
            except Unanalysable:
                pass
        roles = H.FLAT_INT_ROLES.get(key)
        if roles is None:
            raise Unanalysable("the call of the shared flattening helper could not be located in the role's entry point")
        call_args = [{"cons": cons, "z": zref, "n": IntV(n), "m": IntV(m)}[r_] for r_ in roles]
    ret = I.call_fn(path, call_args)
    guards = [it for it in I.trace.items if it[0] == "guard"]
    subst = dict(I.all_subst)
    for ef in effects:
        ef["delta"] = sp.expand(sp.sympify(ef["delta"]).xreplace(subst))
    # roles of returned components
    roots = {}
    for ef in effects:
        roots.setdefault(ef["root"], set()).add(ef["variant"])
    return {"style": site["style"], "role": role, "inits": inits, "n": n, "m": m, "effects": effects, "guards": guards, "ret": ret, "inner": inner_info, "I": I, "roots": roots, "z": z, "Q": Q, "outer_stars": [it for it in I.trace.items if it[0] == "star"], "fn": fn}


def reference(role):
    """variant -> (sign, needs index) ; delta = sign * z^(q+1) * coeff(q,t)"""
    ref = {"MultiplierLeft": +1, "MultiplierRight": +1, "MultiplierOutput": +1, "Committed": -1}
    if role == "verifier":
        ref["One"] = -1
    return ref


def check(ck, F, role, rule):
    """adds obligations to ck; returns the summary"""
    S = summarise(F, role)
    ck.fn(S["fn"]["path"])
    z = S["z"]
    coeff = sfun("coeff")
    ref = reference(role)
    where = FX.short(S["fn"]["sp"])
    by_variant = {}
    for ef in S["effects"]:
        by_variant.setdefault(ef["variant"], []).append(ef)
    # q symbol used by the harness: recover from any effect (the loop index symbol of the outer loop)
    for name, _ in variants_from_items(F):
        efs = by_variant.get(name, [])
        inst = f"{role}:{name}"
        if name in ref:
            if len(efs) != 1:
                ck.fail(rule, inst, f"expected exactly one weight update for variant {name}, found {len(efs)}", where)
                continue
            ef = efs[0]
            d = ef["delta"]
            # delta must be sign * z * z^q * coeff(q,t) for the loop indices q,t
            atoms = [a for a in d.atoms(sp.Function) if a.func.__name__ == "coeff"]
            ok = len(atoms) == 1 and not ef["overwrite"]
            if ok:
                q, t = atoms[0].args
                ok = eq(d, ref[name] * z * z**q * atoms[0])
            if name != "One":
                ok = ok and ef["kind"] == "scatter" and eq(ef["idx"], isym("i"))
            ck.require(ok, rule, inst, f"weight update for {name} is `{'=' if ef['overwrite'] else '+='} {d}` at index {ef['idx']}; reference is {'+' if ref[name] > 0 else '-'}z^(q+1)*coeff accumulated at the variable's own index", ef["where"], detail=f"{ef['target']}[{ef['idx']}] += {d}")
        else:
            # only what the function hands back counts: an accumulator it computes and then drops (a shared helper that
            # also yields the verifier's constant weight) contributes to nothing
            kept = [e for e in efs if e["target"] in returned_targets(S)]
            if S.get("style") == "free" and role == "prover" and name == "One":
                # merged twins: the shared helper also yields the verifier's constant weight.  It must be a component of
                # its own (none of the prover's four weights); the harness hands it to the prover poisoned, so any use of
                # it by the prover stops the analysis
                own = {e["target"] for v_ in ("MultiplierLeft", "MultiplierRight", "MultiplierOutput", "Committed") for e in by_variant.get(v_, [])}
                kept = [e for e in kept if e["target"] in own]
            ck.require(not kept, rule, inst, f"variant {name} must not contribute to any weight ({role}), found {[(e['target'], str(e['delta'])) for e in kept]}", where)
    # distinct targets per variant, and the returned tuple is (L, R, O, V[, c]) in this order
    ret = S["ret"]
    I = S["I"]
    want = ["MultiplierLeft", "MultiplierRight", "MultiplierOutput", "Committed"] + (["One"] if role == "verifier" else [])
    targets = [by_variant[v][0]["target"] for v in want if v in by_variant and by_variant[v]]
    ck.require(len(set(targets)) == len(want), rule, f"{role}:distinct-targets", f"weight vectors are not pairwise distinct: {targets}", where)
    ck.require(not S["guards"], rule, f"{role}:no-early-exit", f"flattening has an early exit the reference lacks: {[str(g[1]) for g in S['guards']]}", where)
    ck.require(S["inner"]["count"] == 1 and S["inner"]["full"], rule, f"{role}:all-terms", "the inner loop does not run over all terms of each constraint exactly once", S["inner"]["where"] or where)
    # initial values: every weight starts at zero, with n entries (gate weights) resp. m entries (commitment weights)
    from .alg import vec_eq as _veq, mk_sum as _mk

    for v in want:
        if v not in by_variant or not by_variant[v]:
            continue
        ef = by_variant[v][0]
        if ef["kind"] == "scatter":
            ini = S["inits"].get(ef["target"])
            ln = S["m"] if v == "Committed" else S["n"]
            why_ = []
            ck.require(isinstance(ini, Vec) and _veq(ini, Vec.const(Sc(0), ln), why_), rule, f"{role}:init:{v}", f"the weight vector for {v} must start as {ln} zeros; it starts as {ini!r} {why_}", where)
        else:
            # scalar accumulator (wc): returned value must be exactly the sum of its per-constraint updates
            got = next((x for x in _walk_leaves(ret) if _leaf_role(S, x) == ROLE_OF[v]), None)
            K = isym("_k")
            fs = [a for a in (got.e.atoms(sp.Function) if isinstance(got, Sc) else []) if str(a.func).startswith("FLATSUM:")]
            okz = isinstance(got, Sc) and len(fs) >= 1 and eq(got.e, _mk(S["Q"], sfun(str(fs[0].func))(K), K))
            ck.require(okz, rule, f"{role}:init:{v}", f"the constant weight must start at zero (returned value {got!r} is not the plain sum of its updates)", where)
    loops = list(I.loop_log)  # the run interprets flattened_constraints only (helpers it delegates to included)
    outer = [l for l in loops if eq(l["n"], S["Q"])]
    ck.require(len(outer) == 1 and eq(outer[0]["off"], 0) and len(loops) == 1, rule, f"{role}:all-constraints", f"the outer loop does not run over all constraints exactly once (loops seen: {[(str(l['n']), str(l['off'])) for l in loops]})", where)
    # every weight is handed back exactly once.  (Which component the caller then uses for which role is decided
    # downstream: the harness hands the caller role-labelled vectors in the shape this function really returns.)
    leaves = return_roles(S)
    if S.get("style") == "free" and role == "prover":
        leaves = [r_ for r_ in leaves if r_ != "wc"]  # the shared helper's extra component (poisoned for the prover, see above)
    got_roles = sorted(r_ for r_ in leaves if r_ is not None)
    want_roles = sorted(ROLE_OF[v] for v in want)
    ck.require(got_roles == want_roles and None not in leaves, rule, f"{role}:return-order", f"the returned value must carry each weight exactly once ({want_roles}); its components are {leaves}", where)
    if isinstance(ret, Tup) and all(not isinstance(x, (Tup, Struct)) for x in ret.items):
        ck.require(leaves == [ROLE_OF[v] for v in want], rule, f"{role}:return-order", f"returned tuple lists the weights as {leaves}, reference order {[ROLE_OF[v] for v in want]}", where)
    return S


ROLE_OF = {"MultiplierLeft": "wL", "MultiplierRight": "wR", "MultiplierOutput": "wO", "Committed": "wV", "One": "wc"}


def _leaf_role(S, v):
    tgt_role = {}
    for ef in S["effects"]:
        if ef["variant"] in ROLE_OF:
            tgt_role[ef["target"]] = ROLE_OF[ef["variant"]]
    if isinstance(v, Vec):
        return tgt_role.get(getattr(v, "flat_tag", None))
    if isinstance(v, Sc):
        fs = [a for a in v.e.atoms(sp.Function) if str(a.func).startswith("FLATSUM:")]
        if fs:
            return tgt_role.get(str(fs[0].func)[len("FLATSUM:"):])
    return None


def _walk_leaves(v):
    if isinstance(v, Tup):
        for x in v.items:
            yield from _walk_leaves(x)
    elif isinstance(v, Struct):
        for k in v.fields:
            yield from _walk_leaves(v.fields[k])
    else:
        yield v


def returned_targets(S):
    """targets (weight vectors / scalar accumulators of the summary) that occur in the returned value"""
    out = set()
    for x in _walk_leaves(S["ret"]):
        if isinstance(x, Vec) and isinstance(getattr(x, "flat_tag", None), str):
            out.add(x.flat_tag)
        elif isinstance(x, Sc):
            for a in x.e.atoms(sp.Function):
                if str(a.func).startswith("FLATSUM:"):
                    out.add(str(a.func)[len("FLATSUM:"):])
    return out


def return_roles(S):
    """roles (wL, wR, wO, wV, wc / None) of the leaves of the returned value, in order"""
    return [_leaf_role(S, x) for x in _walk_leaves(S["ret"])]


def shaped_return(F, role, make):
    """the value `flattened_constraints` returns, with every weight replaced by make(role_name): same nesting (tuple,
    private struct, pair of struct and scalar, ..) as the analysed function really returns"""
    S = summarise(F, role)

    def build(v):
        if isinstance(v, Tup):
            return Tup([build(x) for x in v.items])
        if isinstance(v, Struct):
            return Struct(v.path, {k: build(x) for k, x in v.fields.items()})
        r_ = _leaf_role(S, v)
        if r_ is None:
            raise Unanalysable(f"flattened_constraints returns a component that is none of the weights: {v!r}")
        return make(r_)

    return build(S["ret"])

"""WITNESS: compile-fail doctests and compiling twins, type-checked by rustdoc (thorough tier). Nothing is executed."""
import os
import re
import subprocess

from . import facts as FX

_cache = {}


def run():
    if "r" in _cache:
        return _cache["r"]
    env = dict(os.environ, BPV_REPO=FX.REPO, BPV_WORK=FX.WORK)
    r = subprocess.run([os.path.join(FX.VERIF, "tools", "run_witness.sh")], capture_output=True, text=True, env=env)
    res = {}
    for line in r.stdout.splitlines():
        m = re.match(r"^test src/lib.rs - (\w+) \(line \d+\) - (compile fail|compile) \.\.\. (\w+)", line)
        if m:
            res.setdefault(m.group(1), {})[m.group(2)] = m.group(3)
    _cache["r"] = (res, r.stdout[-1500:])
    return _cache["r"]


def require(ck, names, rule):
    res, tail = run()
    for n in names:
        got = res.get(n, {})
        ok = got.get("compile fail") == "ok" and got.get("compile") == "ok"
        ck.require(ok, rule, f"witness:{n}", f"compile-fail witness {n} (and its compiling twin) did not behave as expected: {got}; output tail: {tail[-300:]}", "witness/src/lib.rs", detail="violating program fails to type-check with the expected error code; twin compiles")

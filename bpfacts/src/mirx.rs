// MIR side: CFGs with resolved callees and assert kinds; constant decoding by layout.
use crate::hirx::{expn_str, span_full, span_str};
use crate::json::J;
use rustc_abi::Size;
use rustc_hir::def::DefKind;
use rustc_middle::mir::interpret::{AllocRange, Allocation};
use rustc_middle::mir::{
    self, AggregateKind, AssertKind, BasicBlock, ConstValue, Operand, Place, ProjectionElem, Rvalue, StatementKind,
    TerminatorKind, VarDebugInfoContents,
};
use rustc_middle::ty::{self, Ty, TyCtxt};

pub fn all(tcx: TyCtxt<'_>) -> J {
    let mut out = J::obj();
    for ldid in tcx.hir_body_owners() {
        let did = ldid.to_def_id();
        let kind = tcx.def_kind(did);
        if !matches!(kind, DefKind::Fn | DefKind::AssocFn | DefKind::Closure) {
            continue;
        }
        let body = tcx.optimized_mir(did);
        let path = tcx.def_path_str(did);
        out.put(&path, body_json(tcx, did, body));
    }
    out
}

fn body_json<'tcx>(tcx: TyCtxt<'tcx>, did: rustc_hir::def_id::DefId, body: &mir::Body<'tcx>) -> J {
    let env = ty::TypingEnv::post_analysis(tcx, did);
    let mut o = J::obj();
    o.put("arg_count", J::Int(body.arg_count as i128));
    o.put("sp", J::s(&span_str(tcx, body.span)));
    let mut names: Vec<Option<String>> = vec![None; body.local_decls.len()];
    for vdi in &body.var_debug_info {
        if let VarDebugInfoContents::Place(p) = vdi.value {
            if p.projection.is_empty() {
                names[p.local.as_usize()] = Some(vdi.name.to_string());
            }
        }
    }
    let mut locals = Vec::new();
    for (i, d) in body.local_decls.iter().enumerate() {
        let mut l = J::obj();
        l.put("ty", J::s(&d.ty.to_string()));
        if let Some(n) = &names[i] {
            l.put("name", J::s(n));
        }
        locals.push(l);
    }
    o.put("locals", J::Arr(locals));
    // closure upvar names help provenance
    let mut blocks = Vec::new();
    for (_bb, data) in body.basic_blocks.iter_enumerated() {
        let mut b = J::obj();
        b.put("cleanup", J::Bool(data.is_cleanup));
        let mut stmts = Vec::new();
        for st in &data.statements {
            match &st.kind {
                StatementKind::Assign(bx) => {
                    let (pl, rv) = &**bx;
                    let mut s = J::k("Assign");
                    s.put("place", place(tcx, body, pl));
                    s.put("rv", rvalue(tcx, env, body, rv));
                    s.put("sp", J::s(&span_str(tcx, st.source_info.span)));
                    stmts.push(s);
                }
                StatementKind::SetDiscriminant { place: pl, variant_index } => {
                    let mut s = J::k("SetDiscriminant");
                    s.put("place", place(tcx, body, pl));
                    s.put("variant", J::Int(variant_index.as_u32() as i128));
                    stmts.push(s);
                }
                StatementKind::StorageLive(_)
                | StatementKind::StorageDead(_)
                | StatementKind::Nop
                | StatementKind::FakeRead(..)
                | StatementKind::PlaceMention(..)
                | StatementKind::AscribeUserType(..)
                | StatementKind::Coverage(..)
                | StatementKind::ConstEvalCounter
                | StatementKind::BackwardIncompatibleDropHint { .. } => {}
                StatementKind::Intrinsic(i) => {
                    stmts.push(J::k("Intrinsic").with("dbg", J::s(&format!("{:?}", i))));
                }
            }
        }
        b.put("stmts", J::Arr(stmts));
        let term = data.terminator();
        let mut t = J::obj();
        t.put("sp", J::s(&span_str(tcx, term.source_info.span)));
        t.put("spx", J::s(&span_full(tcx, term.source_info.span)));
        if let Some(m) = expn_str(term.source_info.span) {
            t.put("expn", J::Str(m));
        }
        match &term.kind {
            TerminatorKind::Goto { target } => {
                t.put("k", J::s("Goto"));
                t.put("target", bbj(*target));
            }
            TerminatorKind::SwitchInt { discr, targets } => {
                t.put("k", J::s("SwitchInt"));
                t.put("discr", operand(tcx, env, body, discr));
                let mut tv = Vec::new();
                for (v, bb) in targets.iter() {
                    tv.push(J::Arr(vec![J::s(&v.to_string()), bbj(bb)]));
                }
                t.put("targets", J::Arr(tv));
                t.put("otherwise", bbj(targets.otherwise()));
            }
            TerminatorKind::Return => {
                t.put("k", J::s("Return"));
            }
            TerminatorKind::Unreachable => {
                t.put("k", J::s("Unreachable"));
            }
            TerminatorKind::UnwindResume => {
                t.put("k", J::s("UnwindResume"));
            }
            TerminatorKind::UnwindTerminate(_) => {
                t.put("k", J::s("UnwindTerminate"));
            }
            TerminatorKind::Drop { place: pl, target, .. } => {
                t.put("k", J::s("Drop"));
                t.put("place", place(tcx, body, pl));
                t.put("target", bbj(*target));
            }
            TerminatorKind::Call { func, args, destination, target, .. } => {
                t.put("k", J::s("Call"));
                t.put("func", callee(tcx, env, body, func));
                t.put("args", J::Arr(args.iter().map(|a| operand(tcx, env, body, &a.node)).collect()));
                t.put("dest", place(tcx, body, destination));
                t.put("target", target.map(bbj).unwrap_or(J::Null));
            }
            TerminatorKind::TailCall { func, args, .. } => {
                t.put("k", J::s("TailCall"));
                t.put("func", callee(tcx, env, body, func));
                t.put("args", J::Arr(args.iter().map(|a| operand(tcx, env, body, &a.node)).collect()));
            }
            TerminatorKind::Assert { cond, expected, msg, target, .. } => {
                t.put("k", J::s("Assert"));
                t.put("cond", operand(tcx, env, body, cond));
                t.put("expected", J::Bool(*expected));
                t.put("target", bbj(*target));
                let mut m = J::obj();
                match &**msg {
                    AssertKind::BoundsCheck { len, index } => {
                        m.put("k", J::s("BoundsCheck"));
                        m.put("len", operand(tcx, env, body, len));
                        m.put("index", operand(tcx, env, body, index));
                    }
                    AssertKind::Overflow(op, a, b) => {
                        m.put("k", J::s("Overflow"));
                        m.put("op", J::s(&format!("{:?}", op)));
                        m.put("a", operand(tcx, env, body, a));
                        m.put("b", operand(tcx, env, body, b));
                    }
                    AssertKind::OverflowNeg(a) => {
                        m.put("k", J::s("OverflowNeg"));
                        m.put("a", operand(tcx, env, body, a));
                    }
                    AssertKind::DivisionByZero(a) => {
                        m.put("k", J::s("DivisionByZero"));
                        m.put("a", operand(tcx, env, body, a));
                    }
                    AssertKind::RemainderByZero(a) => {
                        m.put("k", J::s("RemainderByZero"));
                        m.put("a", operand(tcx, env, body, a));
                    }
                    other => {
                        m.put("k", J::s("Other"));
                        m.put("dbg", J::s(&format!("{:?}", other)));
                    }
                }
                t.put("msg", m);
            }
            TerminatorKind::FalseEdge { real_target, .. } => {
                t.put("k", J::s("Goto"));
                t.put("target", bbj(*real_target));
            }
            TerminatorKind::FalseUnwind { real_target, .. } => {
                t.put("k", J::s("Goto"));
                t.put("target", bbj(*real_target));
            }
            other => {
                t.put("k", J::s("OtherTerm"));
                t.put("dbg", J::s(&format!("{:?}", other)));
            }
        }
        b.put("term", t);
        blocks.push(b);
    }
    o.put("blocks", J::Arr(blocks));
    o
}

fn bbj(b: BasicBlock) -> J {
    J::Int(b.as_u32() as i128)
}

fn place<'tcx>(tcx: TyCtxt<'tcx>, body: &mir::Body<'tcx>, p: &Place<'tcx>) -> J {
    let mut o = J::obj();
    o.put("l", J::Int(p.local.as_u32() as i128));
    let mut pr = Vec::new();
    let mut cur_ty = mir::PlaceTy::from_ty(body.local_decls[p.local].ty);
    for elem in p.projection.iter() {
        let j = match elem {
            ProjectionElem::Deref => J::s("*"),
            ProjectionElem::Field(f, _) => {
                // field name when the base is an ADT
                let mut name = format!("{}", f.as_u32());
                if let ty::Adt(def, _) = cur_ty.ty.kind() {
                    let vi = cur_ty.variant_index.unwrap_or(rustc_abi::FIRST_VARIANT);
                    if let Some(v) = def.variants().get(vi) {
                        if let Some(fd) = v.fields.get(f) {
                            name = fd.name.to_string();
                        }
                    }
                }
                J::obj().with("f", J::s(&name))
            }
            ProjectionElem::Index(l) => J::obj().with("idx", J::Int(l.as_u32() as i128)),
            ProjectionElem::ConstantIndex { offset, from_end, .. } => {
                J::obj().with("cidx", J::Int(offset as i128)).with("from_end", J::Bool(from_end))
            }
            ProjectionElem::Subslice { from, to, from_end } => J::obj()
                .with("sub_from", J::Int(from as i128))
                .with("sub_to", J::Int(to as i128))
                .with("from_end", J::Bool(from_end)),
            ProjectionElem::Downcast(name, vi) => J::obj()
                .with("variant", J::s(&name.map(|n| n.to_string()).unwrap_or_default()))
                .with("vi", J::Int(vi.as_u32() as i128)),
            ProjectionElem::OpaqueCast(_) => J::s("opaque"),
            ProjectionElem::UnwrapUnsafeBinder(_) => J::s("unwrap_binder"),
        };
        pr.push(j);
        cur_ty = cur_ty.projection_ty(tcx, elem);
    }
    o.put("p", J::Arr(pr));
    o
}

fn callee<'tcx>(tcx: TyCtxt<'tcx>, env: ty::TypingEnv<'tcx>, body: &mir::Body<'tcx>, f: &Operand<'tcx>) -> J {
    if let Some((did, args)) = f.const_fn_def() {
        let mut o = J::k("Fn");
        o.put("path", J::s(&tcx.def_path_str(did)));
        o.put("local", J::Bool(did.is_local()));
        o.put("gargs", J::Arr(args.iter().map(|a| J::s(&a.to_string())).collect()));
        if let Some(tr) = tcx.trait_of_assoc(did) {
            o.put("trait", J::s(&tcx.def_path_str(tr)));
        }
        let complete = args.len() == tcx.generics_of(did).count();
        if let Some(inst) = if complete { ty::Instance::try_resolve(tcx, env, did, args).ok().flatten() } else { None } {
            let rd = inst.def_id();
            if rd != did {
                o.put("resolved", J::s(&tcx.def_path_str(rd)));
                o.put("resolved_local", J::Bool(rd.is_local()));
            }
        }
        o
    } else {
        J::k("Indirect").with("op", operand(tcx, env, body, f))
    }
}

fn operand<'tcx>(tcx: TyCtxt<'tcx>, env: ty::TypingEnv<'tcx>, body: &mir::Body<'tcx>, op: &Operand<'tcx>) -> J {
    match op {
        Operand::Copy(p) => J::k("Copy").with("place", place(tcx, body, p)),
        Operand::Move(p) => J::k("Move").with("place", place(tcx, body, p)),
        Operand::Constant(c) => {
            let mut o = J::k("Const");
            let t = c.const_.ty();
            o.put("ty", J::s(&t.to_string()));
            o.put("s", J::s(&format!("{}", c.const_)));
            if let ty::FnDef(did, _) = t.kind() {
                o.put("fn", J::s(&tcx.def_path_str(*did)));
            }
            if t.is_integral() || t.is_bool() {
                if let Some(si) = c.const_.try_eval_scalar_int(tcx, env) {
                    let bits = si.to_bits(si.size());
                    o.put("int", J::s(&bits.to_string()));
                }
            }
            o
        }
        #[allow(unreachable_patterns)]
        other => J::k("OtherOperand").with("dbg", J::s(&format!("{:?}", other))),
    }
}

fn rvalue<'tcx>(tcx: TyCtxt<'tcx>, env: ty::TypingEnv<'tcx>, body: &mir::Body<'tcx>, rv: &Rvalue<'tcx>) -> J {
    match rv {
        Rvalue::Use(op, ..) => J::k("Use").with("op", operand(tcx, env, body, op)),
        Rvalue::Repeat(op, n) => J::k("Repeat").with("op", operand(tcx, env, body, op)).with("n", J::s(&n.to_string())),
        Rvalue::Ref(_, bk, p) => J::k("Ref").with("bk", J::s(&format!("{:?}", bk))).with("place", place(tcx, body, p)),
        Rvalue::RawPtr(_, p) => J::k("RawPtr").with("place", place(tcx, body, p)),
        Rvalue::Cast(kind, op, t) => J::k("Cast")
            .with("ck", J::s(&format!("{:?}", kind)))
            .with("op", operand(tcx, env, body, op))
            .with("ty", J::s(&t.to_string())),
        Rvalue::BinaryOp(op, bx) => {
            let (a, b) = &**bx;
            J::k("BinaryOp")
                .with("op", J::s(&format!("{:?}", op)))
                .with("a", operand(tcx, env, body, a))
                .with("b", operand(tcx, env, body, b))
        }
        Rvalue::UnaryOp(op, a) => J::k("UnaryOp").with("op", J::s(&format!("{:?}", op))).with("a", operand(tcx, env, body, a)),
        Rvalue::Discriminant(p) => J::k("Discriminant").with("place", place(tcx, body, p)),
        Rvalue::Aggregate(kind, ops) => {
            let mut o = J::k("Aggregate");
            match &**kind {
                AggregateKind::Adt(did, vi, _, _, _) => {
                    o.put("ak", J::s("Adt"));
                    o.put("adt", J::s(&tcx.def_path_str(*did)));
                    let def = tcx.adt_def(*did);
                    o.put("variant", J::s(def.variant(*vi).name.as_str()));
                }
                AggregateKind::Tuple => {
                    o.put("ak", J::s("Tuple"));
                }
                AggregateKind::Array(_) => {
                    o.put("ak", J::s("Array"));
                }
                AggregateKind::Closure(did, _) => {
                    o.put("ak", J::s("Closure"));
                    o.put("def", J::s(&tcx.def_path_str(*did)));
                }
                other => {
                    o.put("ak", J::s(&format!("{:?}", other)));
                }
            }
            o.put("ops", J::Arr(ops.iter().map(|x| operand(tcx, env, body, x)).collect()));
            o
        }
        Rvalue::CopyForDeref(p) => J::k("Use").with("op", J::k("Copy").with("place", place(tcx, body, p))),
        other => J::k("OtherRvalue").with("dbg", J::s(&format!("{:?}", other))),
    }
}

// ---- constants -------------------------------------------------------------------

fn read_uint(alloc: &Allocation, off: Size, size: Size) -> Option<u128> {
    let bytes = alloc.inspect_with_uninit_and_ptr_outside_interpreter(off.bytes_usize()..(off + size).bytes_usize());
    let mut v: u128 = 0;
    for (i, b) in bytes.iter().enumerate() {
        if i < 16 {
            v |= (*b as u128) << (8 * i);
        }
    }
    let _ = AllocRange { start: off, size };
    Some(v)
}

fn read_val<'tcx>(tcx: TyCtxt<'tcx>, alloc: &Allocation, off: Size, t: Ty<'tcx>, depth: u32) -> J {
    if depth > 12 {
        return J::Null;
    }
    let env = ty::TypingEnv::fully_monomorphized();
    let Ok(layout) = tcx.layout_of(env.as_query_input(t)) else {
        return J::obj().with("unsized_or_generic", J::s(&t.to_string()));
    };
    match t.kind() {
        ty::Uint(_) | ty::Int(_) | ty::Bool => match read_uint(alloc, off, layout.size) {
            Some(v) => J::s(&v.to_string()),
            None => J::Null,
        },
        ty::Array(elem, _) => {
            let Ok(el) = tcx.layout_of(env.as_query_input(*elem)) else { return J::Null };
            let n = if el.size.bytes() == 0 { 0 } else { layout.size.bytes() / el.size.bytes() };
            let mut v = Vec::new();
            for i in 0..n {
                v.push(read_val(tcx, alloc, off + el.size * i, *elem, depth + 1));
            }
            J::Arr(v)
        }
        ty::Adt(def, args) if def.is_struct() => {
            let mut o = J::obj();
            o.put("_adt", J::s(&tcx.def_path_str(def.did())));
            for (i, f) in def.non_enum_variant().fields.iter().enumerate() {
                let ft = f.ty(tcx, args);
                let ft = tcx.normalize_erasing_regions(env, ty::Unnormalized::new_wip(ft));
                let fo = layout.fields.offset(i);
                let Ok(fl) = tcx.layout_of(env.as_query_input(ft)) else { continue };
                if fl.size.bytes() == 0 {
                    continue;
                }
                o.put(f.name.as_str(), read_val(tcx, alloc, off + fo, ft, depth + 1));
            }
            o
        }
        ty::Ref(_, inner, _) => {
            // follow the pointer through the allocation's provenance map
            let Some(prov) = alloc.provenance().get_ptr(off) else { return J::obj().with("dangling_ref", J::s(&t.to_string())) };
            let ptr_off = read_uint(alloc, off, Size::from_bytes(8)).unwrap_or(0) as u64;
            let target = tcx.global_alloc(prov.alloc_id()).unwrap_memory();
            let target = target.inner();
            match inner.kind() {
                ty::Slice(elem) => {
                    let len = read_uint(alloc, off + Size::from_bytes(8), Size::from_bytes(8)).unwrap_or(0) as u64;
                    let Ok(el) = tcx.layout_of(env.as_query_input(*elem)) else { return J::Null };
                    let mut v = Vec::new();
                    for i in 0..len {
                        v.push(read_val(tcx, target, Size::from_bytes(ptr_off) + el.size * i, *elem, depth + 1));
                    }
                    J::obj().with("slice_len", J::Int(len as i128)).with("elems", J::Arr(v))
                }
                _ => read_val(tcx, target, Size::from_bytes(ptr_off), *inner, depth + 1),
            }
        }
        _ => J::obj().with("opaque_ty", J::s(&t.to_string())),
    }
}

pub fn const_value_json<'tcx>(tcx: TyCtxt<'tcx>, val: ConstValue, t: Ty<'tcx>) -> J {
    match val {
        ConstValue::Scalar(s) => J::obj().with("scalar", J::s(&format!("{:?}", s))),
        ConstValue::ZeroSized => J::obj().with("zst", J::Bool(true)),
        ConstValue::Slice { alloc_id, meta } => {
            // &[T] / &str : decode as elements of T when T is an integer
            let alloc = tcx.global_alloc(alloc_id).unwrap_memory();
            let alloc = alloc.inner();
            let mut o = J::obj();
            o.put("slice_len", J::Int(meta as i128));
            if let ty::Ref(_, inner, _) = t.kind() {
                if let ty::Slice(elem) = inner.kind() {
                    let env = ty::TypingEnv::fully_monomorphized();
                    if let Ok(el) = tcx.layout_of(env.as_query_input(*elem)) {
                        let mut v = Vec::new();
                        for i in 0..meta {
                            v.push(read_val(tcx, alloc, el.size * i, *elem, 0));
                        }
                        o.put("elems", J::Arr(v));
                    }
                }
            }
            o
        }
        ConstValue::Indirect { alloc_id, offset } => {
            let alloc = tcx.global_alloc(alloc_id).unwrap_memory();
            read_val(tcx, alloc.inner(), offset, t, 0)
        }
    }
}

// HIR side: items, typed and resolved expression trees, evaluated constants.
use crate::json::J;
use rustc_ast::ast::LitKind;
use rustc_hir as hir;
use rustc_hir::def::{DefKind, Res};
use rustc_hir::def_id::{DefId, LocalDefId};
use rustc_middle::ty::{self, TyCtxt, TypeckResults};
use rustc_span::{ExpnKind, Span};

pub fn span_str(tcx: TyCtxt<'_>, sp: Span) -> String {
    let sp = sp.source_callsite();
    let sm = tcx.sess.source_map();
    let lo = sm.lookup_char_pos(sp.lo());
    let f = match &lo.file.name {
        rustc_span::FileName::Real(r) => match r.local_path() {
            Some(p) => p.to_string_lossy().to_string(),
            None => format!("{:?}", lo.file.name),
        },
        other => format!("{:?}", other),
    };
    format!("{}:{}:{}", f, lo.line, lo.col.0 + 1)
}

pub fn span_full(tcx: TyCtxt<'_>, sp: Span) -> String {
    let sp = sp.source_callsite();
    let sm = tcx.sess.source_map();
    let lo = sm.lookup_char_pos(sp.lo());
    let hi = sm.lookup_char_pos(sp.hi());
    format!("{}:{}:{}-{}:{}", span_str(tcx, sp).split(':').next().unwrap_or(""), lo.line, lo.col.0 + 1, hi.line, hi.col.0 + 1)
}

pub fn expn_str(sp: Span) -> Option<String> {
    if !sp.from_expansion() {
        return None;
    }
    // outermost macro of the expansion chain
    let mut cur = sp;
    let mut name = String::new();
    let mut guard = 0;
    while cur.from_expansion() && guard < 32 {
        let d = cur.ctxt().outer_expn_data();
        name = match d.kind {
            ExpnKind::Macro(k, n) => format!("{:?}:{}", k, n),
            ExpnKind::Desugaring(dk) => format!("desugar:{:?}", dk),
            ExpnKind::AstPass(p) => format!("astpass:{:?}", p),
            ExpnKind::Root => "root".to_string(),
        };
        cur = d.call_site;
        guard += 1;
    }
    Some(name)
}

fn vis_str(tcx: TyCtxt<'_>, did: DefId) -> String {
    match tcx.def_kind(did) {
        DefKind::Closure | DefKind::AnonConst | DefKind::InlineConst => "n/a".into(),
        _ => match tcx.visibility(did) {
            ty::Visibility::Public => "pub".into(),
            ty::Visibility::Restricted(m) => format!("restricted({})", tcx.def_path_str(m)),
        },
    }
}

pub fn items(tcx: TyCtxt<'_>) -> J {
    let mut adts = Vec::new();
    let mut impls = Vec::new();
    let mut traits = Vec::new();
    let mut aliases = Vec::new();
    let mut reexports = Vec::new();
    for id in tcx.hir_free_items() {
        let item = tcx.hir_item(id);
        let did = item.owner_id.to_def_id();
        let path = tcx.def_path_str(did);
        match item.kind {
            hir::ItemKind::Struct(..) | hir::ItemKind::Enum(..) | hir::ItemKind::Union(..) => {
                let adt = tcx.adt_def(did);
                let mut o = J::obj();
                o.put("path", J::s(&path));
                o.put(
                    "kind",
                    J::s(if adt.is_enum() {
                        "enum"
                    } else if adt.is_union() {
                        "union"
                    } else {
                        "struct"
                    }),
                );
                o.put("vis", J::s(&vis_str(tcx, did)));
                o.put("sp", J::s(&span_str(tcx, item.span)));
                let mut vs = Vec::new();
                for v in adt.variants() {
                    let mut vo = J::obj();
                    vo.put("name", J::s(v.name.as_str()));
                    let mut fs = Vec::new();
                    for f in v.fields.iter() {
                        let t = tcx.type_of(f.did).instantiate_identity().skip_norm_wip();
                        let mut fo = J::obj();
                        fo.put("name", J::s(f.name.as_str()));
                        fo.put("ty", J::s(&t.to_string()));
                        fo.put("vis", J::s(&vis_str(tcx, f.did)));
                        fs.push(fo);
                    }
                    vo.put("fields", J::Arr(fs));
                    vs.push(vo);
                }
                o.put("variants", J::Arr(vs));
                adts.push(o);
            }
            hir::ItemKind::Impl(imp) => {
                let mut o = J::obj();
                let self_ty = tcx.type_of(did).instantiate_identity().skip_norm_wip();
                o.put("self_ty", J::s(&self_ty.to_string()));
                let tr = tcx.impl_opt_trait_ref(did);
                match tr {
                    Some(t) => {
                        let t = t.instantiate_identity().skip_norm_wip();
                        o.put("trait", J::s(&tcx.def_path_str(t.def_id)));
                        o.put("trait_ref", J::s(&t.to_string()));
                    }
                    None => {
                        o.put("trait", J::Null);
                    }
                }
                o.put("expn", expn_str(item.span).map(|s| J::Str(s)).unwrap_or(J::Null));
                o.put("sp", J::s(&span_str(tcx, item.span)));
                let mut names = Vec::new();
                for it in imp.items {
                    let d = it.owner_id.to_def_id();
                    names.push(J::s(&tcx.def_path_str(d)));
                }
                o.put("items", J::Arr(names));
                impls.push(o);
            }
            hir::ItemKind::Trait { .. } => {
                let mut o = J::obj();
                o.put("path", J::s(&path));
                let mut names = Vec::new();
                for d in tcx.associated_item_def_ids(did) {
                    names.push(J::s(&tcx.def_path_str(*d)));
                }
                o.put("items", J::Arr(names));
                traits.push(o);
            }
            hir::ItemKind::Use(upath, _) => {
                // re-exports: `pub use a::b as c;` -> (module path of the item, exported name, target def path)
                let name = upath.segments.last().map(|sg| sg.ident.to_string()).unwrap_or_default();
                let exported = match item.kind {
                    hir::ItemKind::Use(_, hir::UseKind::Single(id)) => id.to_string(),
                    _ => name.clone(),
                };
                for r in [upath.res.type_ns, upath.res.value_ns, upath.res.macro_ns].into_iter().flatten() {
                    if let Res::Def(dk, d) = r {
                        let mut o = J::obj();
                        o.put("in", J::s(&tcx.def_path_str(tcx.parent_module_from_def_id(item.owner_id.def_id).to_def_id())));
                        o.put("name", J::s(&exported));
                        o.put("dk", J::s(&format!("{:?}", dk)));
                        o.put("target", J::s(&tcx.def_path_str(d)));
                        o.put("vis", J::s(&vis_str(tcx, did)));
                        reexports.push(o);
                    }
                }
            }
            hir::ItemKind::TyAlias(..) => {
                let t = tcx.type_of(did).instantiate_identity().skip_norm_wip();
                let mut o = J::obj();
                o.put("path", J::s(&path));
                o.put("ty", J::s(&t.to_string()));
                aliases.push(o);
            }
            _ => {}
        }
    }
    let mut o = J::obj();
    o.put("adts", J::Arr(adts));
    o.put("impls", J::Arr(impls));
    o.put("traits", J::Arr(traits));
    o.put("aliases", J::Arr(aliases));
    o.put("reexports", J::Arr(reexports));
    o
}

pub struct Cx<'a, 'tcx> {
    pub tcx: TyCtxt<'tcx>,
    pub tr: &'a TypeckResults<'tcx>,
    pub owner: LocalDefId,
}

pub fn bodies(tcx: TyCtxt<'_>) -> J {
    let mut out = J::obj();
    for ldid in tcx.hir_body_owners() {
        let did = ldid.to_def_id();
        let kind = tcx.def_kind(did);
        if !matches!(kind, DefKind::Fn | DefKind::AssocFn | DefKind::Const { .. } | DefKind::AssocConst { .. }) {
            continue;
        }
        let path = tcx.def_path_str(did);
        let tr = tcx.typeck(ldid);
        let Some(body) = tcx.hir_maybe_body_owned_by(ldid) else { continue };
        let cx = Cx { tcx, tr, owner: ldid };
        let mut o = J::obj();
        o.put("path", J::s(&path));
        o.put("dk", J::s(&format!("{:?}", kind)));
        o.put("vis", J::s(&vis_str(tcx, did)));
        o.put("sp", J::s(&span_str(tcx, tcx.def_span(did))));
        o.put("expn", expn_str(tcx.def_span(did)).map(J::Str).unwrap_or(J::Null));
        // parent impl / trait
        if let Some(parent) = tcx.opt_parent(did) {
            match tcx.def_kind(parent) {
                DefKind::Impl { .. } => {
                    let st = tcx.type_of(parent).instantiate_identity().skip_norm_wip();
                    o.put("impl_self", J::s(&st.to_string()));
                    if let Some(t) = tcx.impl_opt_trait_ref(parent) {
                        let t = t.instantiate_identity().skip_norm_wip();
                        o.put("impl_trait", J::s(&tcx.def_path_str(t.def_id)));
                        o.put("impl_trait_ref", J::s(&t.to_string()));
                    }
                }
                DefKind::Trait => {
                    o.put("in_trait", J::s(&tcx.def_path_str(parent)));
                }
                _ => {}
            }
        }
        let mut ps = Vec::new();
        for p in body.params {
            let mut po = J::obj();
            po.put("pat", cx.pat(p.pat));
            po.put("ty", J::s(&tr.pat_ty(p.pat).to_string()));
            ps.push(po);
        }
        o.put("params", J::Arr(ps));
        o.put("ret_ty", J::s(&tr.expr_ty(body.value).to_string()));
        o.put("body", cx.expr(body.value));
        out.put(&path, o);
    }
    out
}

fn hid(id: hir::HirId) -> String {
    format!("{}.{}", id.owner.def_id.local_def_index.as_u32(), id.local_id.as_u32())
}

impl<'a, 'tcx> Cx<'a, 'tcx> {
    fn res_json(&self, res: Res) -> J {
        match res {
            Res::Local(id) => J::k("Local").with("id", J::s(&hid(id))).with("name", J::s(self.tcx.hir_name(id).as_str())),
            Res::Def(dk, did) => {
                let mut o = J::k("Def");
                o.put("dk", J::s(&format!("{:?}", dk)));
                o.put("path", J::s(&self.tcx.def_path_str(did)));
                o.put("local", J::Bool(did.is_local()));
                if let DefKind::Ctor(..) = dk {
                    // path of the variant / struct the ctor belongs to
                    let p = self.tcx.parent(did);
                    o.put("ctor_of", J::s(&self.tcx.def_path_str(p)));
                }
                o
            }
            Res::SelfCtor(did) => J::k("SelfCtor").with("path", J::s(&self.tcx.def_path_str(did))),
            Res::SelfTyAlias { alias_to, .. } => J::k("SelfTy").with("path", J::s(&self.tcx.def_path_str(alias_to))),
            other => J::k("OtherRes").with("dbg", J::s(&format!("{:?}", other))),
        }
    }

    // resolve a (possibly trait) callee to the impl item when the instance is determined
    fn resolve_callee(&self, did: DefId, args: ty::GenericArgsRef<'tcx>, o: &mut J) {
        o.put("path", J::s(&self.tcx.def_path_str(did)));
        o.put("local", J::Bool(did.is_local()));
        let argv: Vec<J> = args.iter().map(|a| J::s(&a.to_string())).collect();
        o.put("gargs", J::Arr(argv));
        if let Some(tr) = self.tcx.trait_of_assoc(did) {
            o.put("trait", J::s(&self.tcx.def_path_str(tr)));
        }
        let env = ty::TypingEnv::post_analysis(self.tcx, self.owner.to_def_id());
        if args.len() != self.tcx.generics_of(did).count() {
            o.put("gargs_incomplete", J::Bool(true));
            return;
        }
        if let Ok(Some(inst)) = ty::Instance::try_resolve(self.tcx, env, did, args) {
            let rd = inst.def_id();
            if rd != did {
                o.put("resolved", J::s(&self.tcx.def_path_str(rd)));
                o.put("resolved_local", J::Bool(rd.is_local()));
            }
        }
    }

    pub fn qpath(&self, qp: &hir::QPath<'tcx>, id: hir::HirId) -> J {
        let res = self.tr.qpath_res(qp, id);
        let mut o = self.res_json(res);
        if let Res::Def(dk, did) = res {
            if matches!(dk, DefKind::Fn | DefKind::AssocFn | DefKind::AssocConst { .. } | DefKind::Const { .. } | DefKind::Ctor(..)) {
                let args = self.tr.node_args(id);
                if matches!(dk, DefKind::Fn | DefKind::AssocFn) {
                    let mut c = J::obj();
                    self.resolve_callee(did, args, &mut c);
                    if let J::Obj(items) = c {
                        for (k, v) in items {
                            if k != "path" && k != "local" {
                                o.put(&k, v);
                            }
                        }
                    }
                } else {
                    let argv: Vec<J> = args.iter().map(|a| J::s(&a.to_string())).collect();
                    o.put("gargs", J::Arr(argv));
                }
            }
        }
        o
    }

    pub fn block(&self, b: &hir::Block<'tcx>) -> J {
        let mut stmts = Vec::new();
        for s in b.stmts {
            match s.kind {
                hir::StmtKind::Let(l) => {
                    let mut o = J::k("Let");
                    o.put("sp", J::s(&span_str(self.tcx, s.span)));
                    o.put("pat", self.pat(l.pat));
                    o.put("init", l.init.map(|e| self.expr(e)).unwrap_or(J::Null));
                    o.put("els", l.els.map(|b| self.block(b)).unwrap_or(J::Null));
                    stmts.push(o);
                }
                hir::StmtKind::Expr(e) => stmts.push(J::k("Expr").with("e", self.expr(e))),
                hir::StmtKind::Semi(e) => stmts.push(J::k("Semi").with("e", self.expr(e))),
                hir::StmtKind::Item(_) => stmts.push(J::k("Item")),
            }
        }
        let mut o = J::k("Block");
        o.put("stmts", J::Arr(stmts));
        o.put("expr", b.expr.map(|e| self.expr(e)).unwrap_or(J::Null));
        o
    }

    pub fn expr(&self, e: &hir::Expr<'tcx>) -> J {
        use hir::ExprKind as K;
        // transparent wrappers
        match e.kind {
            K::DropTemps(inner) | K::Use(inner, _) | K::Type(inner, _) => return self.expr(inner),
            _ => {}
        }
        let mut o = J::obj();
        let ty = self.tr.expr_ty_opt(e).map(|t| t.to_string()).unwrap_or_default();
        let kind: &str;
        match e.kind {
            K::Lit(lit) => {
                kind = "Lit";
                match lit.node {
                    LitKind::Str(s, _) => {
                        o.put("lk", J::s("Str"));
                        o.put("v", J::s(s.as_str()));
                    }
                    LitKind::ByteStr(bs, _) => {
                        o.put("lk", J::s("ByteStr"));
                        let bytes = bs.as_byte_str();
                        o.put("v", J::s(&String::from_utf8_lossy(bytes)));
                        o.put("bytes", J::Arr(bytes.iter().map(|b| J::Int(*b as i128)).collect()));
                    }
                    LitKind::Byte(b) => {
                        o.put("lk", J::s("Byte"));
                        o.put("v", J::Int(b as i128));
                    }
                    LitKind::Char(c) => {
                        o.put("lk", J::s("Char"));
                        o.put("v", J::s(&c.to_string()));
                    }
                    LitKind::Int(n, _) => {
                        o.put("lk", J::s("Int"));
                        o.put("v", J::s(&n.get().to_string()));
                    }
                    LitKind::Bool(b) => {
                        o.put("lk", J::s("Bool"));
                        o.put("v", J::Bool(b));
                    }
                    _ => {
                        o.put("lk", J::s("Other"));
                    }
                }
            }
            K::Path(ref qp) => {
                kind = "Path";
                o.put("res", self.qpath(qp, e.hir_id));
            }
            K::Call(f, args) => {
                kind = "Call";
                o.put("f", self.expr(f));
                o.put("args", J::Arr(args.iter().map(|a| self.expr(a)).collect()));
            }
            K::MethodCall(seg, recv, args, _) => {
                kind = "MethodCall";
                o.put("name", J::s(seg.ident.as_str()));
                let mut c = J::obj();
                if let Some(did) = self.tr.type_dependent_def_id(e.hir_id) {
                    self.resolve_callee(did, self.tr.node_args(e.hir_id), &mut c);
                }
                o.put("callee", c);
                o.put("recv", self.expr(recv));
                o.put("args", J::Arr(args.iter().map(|a| self.expr(a)).collect()));
            }
            K::Binary(op, l, r) => {
                kind = "Binary";
                o.put("op", J::s(op.node.as_str()));
                if self.tr.is_method_call(e) {
                    let mut c = J::obj();
                    if let Some(did) = self.tr.type_dependent_def_id(e.hir_id) {
                        self.resolve_callee(did, self.tr.node_args(e.hir_id), &mut c);
                    }
                    o.put("callee", c);
                }
                o.put("l", self.expr(l));
                o.put("r", self.expr(r));
            }
            K::Unary(op, x) => {
                kind = "Unary";
                o.put("op", J::s(op.as_str()));
                if self.tr.is_method_call(e) {
                    let mut c = J::obj();
                    if let Some(did) = self.tr.type_dependent_def_id(e.hir_id) {
                        self.resolve_callee(did, self.tr.node_args(e.hir_id), &mut c);
                    }
                    o.put("callee", c);
                }
                o.put("e", self.expr(x));
            }
            K::AssignOp(op, l, r) => {
                kind = "AssignOp";
                o.put("op", J::s(op.node.as_str()));
                if self.tr.is_method_call(e) {
                    let mut c = J::obj();
                    if let Some(did) = self.tr.type_dependent_def_id(e.hir_id) {
                        self.resolve_callee(did, self.tr.node_args(e.hir_id), &mut c);
                    }
                    o.put("callee", c);
                }
                o.put("l", self.expr(l));
                o.put("r", self.expr(r));
            }
            K::Assign(l, r, _) => {
                kind = "Assign";
                o.put("l", self.expr(l));
                o.put("r", self.expr(r));
            }
            K::Index(b, i, _) => {
                kind = "Index";
                if self.tr.is_method_call(e) {
                    let mut c = J::obj();
                    if let Some(did) = self.tr.type_dependent_def_id(e.hir_id) {
                        self.resolve_callee(did, self.tr.node_args(e.hir_id), &mut c);
                    }
                    o.put("callee", c);
                }
                o.put("base", self.expr(b));
                o.put("idx", self.expr(i));
                o.put("base_ty", J::s(&self.tr.expr_ty_adjusted(b).to_string()));
            }
            K::Field(b, ident) => {
                kind = "Field";
                o.put("base", self.expr(b));
                o.put("name", J::s(ident.as_str()));
                o.put("base_ty", J::s(&self.tr.expr_ty_adjusted(b).to_string()));
            }
            K::AddrOf(_, m, x) => {
                kind = "AddrOf";
                o.put("mut", J::Bool(m.is_mut()));
                o.put("e", self.expr(x));
            }
            K::Cast(x, _) => {
                kind = "Cast";
                o.put("e", self.expr(x));
                o.put("from_ty", J::s(&self.tr.expr_ty(x).to_string()));
            }
            K::Tup(xs) => {
                kind = "Tup";
                o.put("es", J::Arr(xs.iter().map(|a| self.expr(a)).collect()));
            }
            K::Array(xs) => {
                kind = "Array";
                o.put("es", J::Arr(xs.iter().map(|a| self.expr(a)).collect()));
            }
            K::Repeat(x, n) => {
                kind = "Repeat";
                o.put("e", self.expr(x));
                o.put("len", J::s(&format!("{:?}", n.kind)));
            }
            K::If(c, t, f) => {
                kind = "If";
                o.put("c", self.expr(c));
                o.put("t", self.expr(t));
                o.put("f", f.map(|x| self.expr(x)).unwrap_or(J::Null));
            }
            K::Let(l) => {
                kind = "LetExpr";
                o.put("pat", self.pat(l.pat));
                o.put("init", self.expr(l.init));
            }
            K::Match(s, arms, src) => {
                kind = "Match";
                o.put("src", J::s(&format!("{:?}", src)));
                o.put("scrut", self.expr(s));
                let mut av = Vec::new();
                for a in arms {
                    let mut ao = J::obj();
                    ao.put("pat", self.pat(a.pat));
                    ao.put("guard", a.guard.map(|g| self.expr(g)).unwrap_or(J::Null));
                    ao.put("body", self.expr(a.body));
                    av.push(ao);
                }
                o.put("arms", J::Arr(av));
            }
            K::Loop(b, _, src, _) => {
                kind = "Loop";
                o.put("src", J::s(&format!("{:?}", src)));
                o.put("body", self.block(b));
            }
            K::Block(b, _) => {
                let mut bo = self.block(b);
                bo.put("ty", J::s(&ty));
                bo.put("sp", J::s(&span_str(self.tcx, e.span)));
                return bo;
            }
            K::Closure(c) => {
                kind = "Closure";
                let body = self.tcx.hir_body(c.body);
                o.put("def", J::s(&self.tcx.def_path_str(c.def_id.to_def_id())));
                o.put("params", J::Arr(body.params.iter().map(|p| self.pat(p.pat)).collect()));
                o.put("body", self.expr(body.value));
            }
            K::Struct(qp, fields, tail) => {
                kind = "Struct";
                o.put("res", self.qpath(qp, e.hir_id));
                let mut fv = Vec::new();
                for f in fields {
                    fv.push(J::obj().with("name", J::s(f.ident.as_str())).with("e", self.expr(f.expr)));
                }
                o.put("fields", J::Arr(fv));
                match tail {
                    hir::StructTailExpr::Base(b) => {
                        o.put("base", self.expr(b));
                    }
                    _ => {}
                }
            }
            K::Ret(x) => {
                kind = "Ret";
                o.put("e", x.map(|x| self.expr(x)).unwrap_or(J::Null));
            }
            K::Break(_, x) => {
                kind = "Break";
                o.put("e", x.map(|x| self.expr(x)).unwrap_or(J::Null));
            }
            K::Continue(_) => {
                kind = "Continue";
            }
            K::ConstBlock(_) => kind = "ConstBlock",
            K::InlineAsm(_) => kind = "InlineAsm",
            K::OffsetOf(..) => kind = "OffsetOf",
            K::Yield(..) => kind = "Yield",
            K::Become(_) => kind = "Become",
            K::UnsafeBinderCast(..) => kind = "UnsafeBinderCast",
            K::Err(_) => kind = "Err",
            K::DropTemps(_) | K::Use(..) | K::Type(..) => unreachable!(),
        }
        let mut out = J::k(kind);
        out.put("ty", J::s(&ty));
        out.put("sp", J::s(&span_str(self.tcx, e.span)));
        out.put("spx", J::s(&span_full(self.tcx, e.span)));
        if let Some(m) = expn_str(e.span) {
            out.put("expn", J::Str(m));
        }
        if let J::Obj(items) = o {
            for (k, v) in items {
                out.put(&k, v);
            }
        }
        out
    }

    pub fn pat(&self, p: &hir::Pat<'tcx>) -> J {
        use hir::PatKind as P;
        match p.kind {
            P::Wild | P::Missing => J::k("Wild"),
            P::Binding(mode, id, ident, sub) => {
                let mut o = J::k("Bind");
                o.put("id", J::s(&hid(id)));
                o.put("name", J::s(ident.as_str()));
                o.put("mode", J::s(&format!("{:?}", mode)));
                o.put("ty", J::s(&self.tr.pat_ty(p).to_string()));
                if let Some(s) = sub {
                    o.put("sub", self.pat(s));
                }
                o
            }
            P::Struct(ref qp, fields, _) => {
                let mut o = J::k("StructPat");
                o.put("res", self.qpath(qp, p.hir_id));
                let mut fv = Vec::new();
                for f in fields {
                    fv.push(J::obj().with("name", J::s(f.ident.as_str())).with("pat", self.pat(f.pat)));
                }
                o.put("fields", J::Arr(fv));
                o
            }
            P::TupleStruct(ref qp, pats, dd) => {
                let mut o = J::k("TupleStructPat");
                o.put("res", self.qpath(qp, p.hir_id));
                o.put("pats", J::Arr(pats.iter().map(|x| self.pat(x)).collect()));
                o.put("dd", dd.as_opt_usize().map(|u| J::Int(u as i128)).unwrap_or(J::Null));
                o
            }
            P::Tuple(pats, dd) => {
                let mut o = J::k("TuplePat");
                o.put("pats", J::Arr(pats.iter().map(|x| self.pat(x)).collect()));
                o.put("dd", dd.as_opt_usize().map(|u| J::Int(u as i128)).unwrap_or(J::Null));
                o
            }
            P::Or(pats) => J::k("OrPat").with("pats", J::Arr(pats.iter().map(|x| self.pat(x)).collect())),
            P::Ref(inner, ..) => J::k("RefPat").with("pat", self.pat(inner)),
            P::Deref(inner) | P::Box(inner) => J::k("RefPat").with("pat", self.pat(inner)),
            P::Expr(pe) => {
                let mut o = J::k("ExprPat");
                match pe.kind {
                    hir::PatExprKind::Lit { lit, negated } => {
                        o.put("lit", J::s(&format!("{:?}", lit.node)));
                        o.put("neg", J::Bool(negated));
                    }
                    hir::PatExprKind::Path(ref qp) => {
                        o.put("res", self.qpath(qp, pe.hir_id));
                    }
                }
                o
            }
            P::Guard(inner, g) => J::k("GuardPat").with("pat", self.pat(inner)).with("guard", self.expr(g)),
            P::Range(..) => J::k("RangePat"),
            P::Slice(before, mid, after) => {
                let mut o = J::k("SlicePat");
                o.put("before", J::Arr(before.iter().map(|x| self.pat(x)).collect()));
                o.put("mid", mid.map(|m| self.pat(m)).unwrap_or(J::Null));
                o.put("after", J::Arr(after.iter().map(|x| self.pat(x)).collect()));
                o
            }
            P::Never => J::k("NeverPat"),
            P::Err(_) => J::k("ErrPat"),
        }
    }
}

// Evaluated constants: every local const / assoc const whose type is closed, plus
// the scalar-field modulus reached through the zorro `Parameters::ScalarField`.
pub fn consts(tcx: TyCtxt<'_>) -> J {
    let mut out = J::obj();
    for ldid in tcx.hir_body_owners() {
        let did = ldid.to_def_id();
        if !matches!(tcx.def_kind(did), DefKind::Const { .. } | DefKind::AssocConst { .. }) {
            continue;
        }
        let path = tcx.def_path_str(did);
        let mut o = J::obj();
        let t = tcx.type_of(did).instantiate_identity().skip_norm_wip();
        o.put("ty", J::s(&t.to_string()));
        match tcx.const_eval_poly(did) {
            Ok(val) => {
                o.put("val", crate::mirx::const_value_json(tcx, val, t));
            }
            Err(_) => {
                o.put("val", J::Null);
            }
        }
        out.put(&path, o);
    }
    out
}

// Moduli of Montgomery prime fields named by local aliases / associated types:
// for every local `type X = Fp<MontBackend<T, N>, N>` (alias or impl assoc type)
// evaluate `<T as ark_ff::MontConfig<N>>::MODULUS` with the compiler's const evaluator.
pub fn moduli(tcx: TyCtxt<'_>) -> J {
    let mut out = J::obj();
    let mut mont_trait = None;
    for t in tcx.all_traits_including_private() {
        if tcx.def_path_str(t) == "ark_ff::MontConfig" {
            mont_trait = Some(t);
        }
    }
    let Some(mont) = mont_trait else { return out };
    let Some(modulus_item) = tcx.associated_items(mont).in_definition_order().find(|i| i.name().as_str() == "MODULUS") else {
        return out;
    };
    let mut cands: Vec<(String, ty::Ty<'_>)> = Vec::new();
    for id in tcx.hir_free_items() {
        let item = tcx.hir_item(id);
        let did = item.owner_id.to_def_id();
        match item.kind {
            hir::ItemKind::TyAlias(..) => {
                cands.push((tcx.def_path_str(did), tcx.type_of(did).instantiate_identity().skip_norm_wip()));
            }
            hir::ItemKind::Impl(imp) => {
                for it in imp.items {
                    let d = it.owner_id.to_def_id();
                    if matches!(tcx.def_kind(d), DefKind::AssocTy) {
                        cands.push((tcx.def_path_str(d), tcx.type_of(d).instantiate_identity().skip_norm_wip()));
                    }
                }
            }
            _ => {}
        }
    }
    for (name, t) in cands {
        let ty::Adt(fp, fargs) = t.kind() else { continue };
        if tcx.def_path_str(fp.did()) != "ark_ff::Fp" || fargs.len() < 1 {
            continue;
        }
        let Some(backend) = fargs[0].as_type() else { continue };
        let ty::Adt(mb, margs) = backend.kind() else { continue };
        if tcx.def_path_str(mb.did()) != "ark_ff::MontBackend" {
            continue;
        }
        let env = ty::TypingEnv::fully_monomorphized();
        let uv = rustc_middle::mir::UnevaluatedConst { def: modulus_item.def_id, args: margs, promoted: None };
        let mut o = J::obj();
        o.put("ty", J::s(&t.to_string()));
        o.put("config", J::s(&margs[0].to_string()));
        match tcx.const_eval_resolve(env, uv, rustc_span::DUMMY_SP) {
            Ok(val) => {
                let mt = tcx.type_of(modulus_item.def_id).instantiate(tcx, margs).skip_norm_wip();
                let mt = tcx.normalize_erasing_regions(env, ty::Unnormalized::new_wip(mt));
                o.put("modulus", crate::mirx::const_value_json(tcx, val, mt));
            }
            Err(_) => {
                o.put("modulus", J::Null);
            }
        }
        out.put(&name, o);
    }
    out
}

// bpfacts: a rustc_private driver that serialises facts about the local crate
// (items, typed+resolved HIR bodies, MIR CFGs, evaluated constants) as JSON.
// It contains no rules: every decision is taken by the Python engines on top.
#![feature(rustc_private)]
#![allow(clippy::all)]

extern crate rustc_abi;
extern crate rustc_ast;
extern crate rustc_driver;
extern crate rustc_hir;
extern crate rustc_interface;
extern crate rustc_middle;
extern crate rustc_session;
extern crate rustc_span;

mod hirx;
mod json;
mod mirx;

use json::J;
use rustc_driver::{Callbacks, Compilation};
use rustc_hir::def::DefKind;
use rustc_interface::interface::Compiler;
use rustc_middle::ty::TyCtxt;

struct Cb {
    out: String,
    krate: String,
    nonce: String,
}

impl Callbacks for Cb {
    fn after_analysis<'tcx>(&mut self, _c: &Compiler, tcx: TyCtxt<'tcx>) -> Compilation {
        let name = tcx.crate_name(rustc_span::def_id::LOCAL_CRATE).to_string();
        if name != self.krate {
            return Compilation::Continue;
        }
        let mut root = J::obj();
        root.put("nonce", J::s(&self.nonce));
        root.put("crate", J::s(&name));
        root.put("rustc", J::s(&rustc_version()));
        // cfg features
        let mut feats = Vec::new();
        for (k, v) in tcx.sess.config.iter() {
            if k.as_str() == "feature" {
                if let Some(v) = v {
                    feats.push(J::s(v.as_str()));
                }
            }
        }
        root.put("features", J::Arr(feats));
        root.put("items", hirx::items(tcx));
        root.put("fns", hirx::bodies(tcx));
        root.put("mir", mirx::all(tcx));
        root.put("consts", hirx::consts(tcx));
        root.put("moduli", hirx::moduli(tcx));
        let text = root.to_string();
        std::fs::write(&self.out, text).expect("bpfacts: cannot write facts");
        Compilation::Continue
    }
}

fn rustc_version() -> String {
    option_env!("CFG_VERSION").unwrap_or("nightly").to_string()
}

fn main() {
    let mut args: Vec<String> = std::env::args().collect();
    // RUSTC_WORKSPACE_WRAPPER passes the real rustc as argv[1]
    if args.len() > 1 && (args[1].ends_with("rustc") || args[1].contains("/rustc")) {
        args.remove(1);
    }
    let out = std::env::var("BPFACTS_OUT").unwrap_or_default();
    let krate = std::env::var("BPFACTS_CRATE").unwrap_or_else(|_| "ark_bulletproofs".into());
    let nonce = std::env::var("BPFACTS_NONCE").unwrap_or_default();
    let is_target = args.windows(2).any(|w| w[0] == "--crate-name" && w[1] == krate)
        && !args.iter().any(|a| a == "--test")
        && args.iter().any(|a| a.starts_with("--crate-type") || a == "lib" || a == "rlib");
    if out.is_empty() || !is_target {
        // plain rustc behaviour for everything else
        struct Nop;
        impl Callbacks for Nop {}
        rustc_driver::run_compiler(&args, &mut Nop);
        return;
    }
    let mut cb = Cb { out, krate, nonce };
    rustc_driver::run_compiler(&args, &mut cb);
}

#[allow(dead_code)]
fn is_fn_like(k: DefKind) -> bool {
    matches!(k, DefKind::Fn | DefKind::AssocFn | DefKind::Closure)
}

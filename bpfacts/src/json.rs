// Minimal JSON value + writer (no external crates are available to the driver).
use std::fmt::Write;

pub enum J {
    Null,
    Bool(bool),
    Int(i128),
    Str(String),
    Arr(Vec<J>),
    Obj(Vec<(String, J)>),
}

impl J {
    pub fn obj() -> J {
        J::Obj(Vec::new())
    }
    pub fn s(s: &str) -> J {
        J::Str(s.to_string())
    }
    pub fn k(kind: &str) -> J {
        let mut o = J::obj();
        o.put("k", J::s(kind));
        o
    }
    pub fn put(&mut self, key: &str, v: J) -> &mut J {
        if let J::Obj(items) = self {
            items.push((key.to_string(), v));
        }
        self
    }
    pub fn with(mut self, key: &str, v: J) -> J {
        self.put(key, v);
        self
    }
    pub fn to_string(&self) -> String {
        let mut s = String::new();
        self.write(&mut s);
        s
    }
    fn write(&self, out: &mut String) {
        match self {
            J::Null => out.push_str("null"),
            J::Bool(b) => out.push_str(if *b { "true" } else { "false" }),
            J::Int(i) => {
                let _ = write!(out, "{}", i);
            }
            J::Str(s) => esc(s, out),
            J::Arr(a) => {
                out.push('[');
                for (i, x) in a.iter().enumerate() {
                    if i > 0 {
                        out.push(',');
                    }
                    x.write(out);
                }
                out.push(']');
            }
            J::Obj(o) => {
                out.push('{');
                for (i, (k, v)) in o.iter().enumerate() {
                    if i > 0 {
                        out.push(',');
                    }
                    esc(k, out);
                    out.push(':');
                    v.write(out);
                }
                out.push('}');
            }
        }
    }
}

fn esc(s: &str, out: &mut String) {
    out.push('"');
    for c in s.chars() {
        match c {
            '"' => out.push_str("\\\""),
            '\\' => out.push_str("\\\\"),
            '\n' => out.push_str("\\n"),
            '\r' => out.push_str("\\r"),
            '\t' => out.push_str("\\t"),
            c if (c as u32) < 0x20 => {
                let _ = write!(out, "\\u{:04x}", c as u32);
            }
            c => out.push(c),
        }
    }
    out.push('"');
}

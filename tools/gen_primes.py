#!/usr/bin/env python3-vt
"""One-off generator of the Pocklington certificate tree for a prime (spec/primes.json).
The tree is *re-verified* on every run by rules/const_c14.py; this script is only the search."""
import json, sys
from sympy import factorint, isprime

def small(q): return q < (1 << 20)

def cert(q, out):
    if str(q) in out or small(q):
        return
    assert isprime(q), q
    # factor q-1 far enough that the factored part exceeds sqrt(q)
    fac = factorint(q - 1)
    primes = sorted(fac, reverse=True)
    chosen = []
    F = 1
    for f in primes:
        chosen.append(f)
        F *= f ** fac[f]
        if F * F > q:
            break
    assert F * F > q
    wit = {}
    for f in chosen:
        a = 2
        while True:
            if pow(a, q - 1, q) == 1:
                from math import gcd
                if gcd(pow(a, (q - 1) // f, q) - 1, q) == 1:
                    wit[str(f)] = a
                    break
            a += 1
    out[str(q)] = {"factors": {str(f): fac[f] for f in chosen}, "witness": wit}
    for f in chosen:
        cert(f, out)

if __name__ == "__main__":
    out = {}
    for s in sys.argv[1:]:
        cert(int(s), out)
    json.dump(out, open("/verif/spec/primes.json", "w"), indent=1, sort_keys=True)
    print(len(out), "nodes")

#!/usr/bin/env python3
"""Freeze the reviewed field names of the crate's own structs into spec/state_fields.json.

The rules and the symbolic harness address private state by these names (`num_vars`, `a_L`, `pending_multiplier`, ..).
A rename of a private field is not a behaviour change, so rules/facts.py maps the fields of today's tree back to the
reviewed names (by name where unchanged, else by declaration order and type) before any rule runs.  Regenerate only after
reviewing a structural change (a new field, a changed type)."""
import json
import os
import sys

ROOT = os.path.dirname(os.path.dirname(os.path.abspath(__file__)))
sys.path.insert(0, ROOT)
from rules import facts  # noqa: E402
from rules.wire import norm_ty  # noqa: E402

F = facts.load("default")
out = {}
for a in F.items["adts"]:
    if a["kind"] != "struct" or a["path"].startswith("curve::"):
        continue
    fields = a["variants"][0]["fields"]
    if not fields:
        continue
    out[a["path"]] = [[f["name"], norm_ty(f["ty"])] for f in fields]
with open(os.path.join(ROOT, "spec", "state_fields.json"), "w") as f:
    json.dump(out, f, indent=1, sort_keys=True)
print(len(out), "structs,", sum(len(v) for v in out.values()), "fields")

#!/usr/bin/env python3
"""copy a confirmed seeded change from /tmp/seed_out/<id> into /verif/seeded/<id> with meta.json"""
import json, os, shutil, sys, re
NEEDS = {
 "C01a": ("both create_randomized_constraints keep the pending gate across the phase switch (2-phase branch)", "odd number of single allocate() in phase 1 plus allocate() of a non-zero value inside a randomized callback"),
 "C01b": ("Prover::constrain silently drops constraints without variable terms", "a constant-only/empty constraint followed by at least one more constraint"),
 "C02a": ("verifier flatten: constant weight assigned (c = *coeff) instead of accumulated", "a constraint with two or more constant terms"),
 "C02b": ("both flattenings return all-zero weights when there are zero gates", "zero-gate circuit with a violated linear constraint"),
 "C03a": ("verifier zeroes the scalars of A_I2/A_O2/S2 when n2 == 0", "hand-built one-phase proof carrying non-identity second-phase points"),
 "C03b": ("shape guards merged into lg_n >= 32 || n > (1 << lg_n)", "forged proof with a surplus (L,R) round"),
 "C04a": ("batching weight r squeezed before t_x, t_x_blinding, e_blinding are absorbed", "circuit with at most one gate; (t_x_blinding, e_blinding) shifted by (-d, r d)"),
 "C04b": ("verifier absorbs identity and uses zero scalars for A_I2/A_O2/S2 when n2 == 0", "one-phase circuit; replace a second-phase point in an accepted proof"),
 "C05a": ("commit() skips absorbing an identity commitment (validate_and_append_point(..).ok())", "an identity commitment plus a reordered commitment list"),
 "C05b": ("verifier flatten: only the first constant of each constraint enters wc (find)", "a constraint with two or more constant terms, deviation in a later one"),
 "C06a": ("both roles skip absorbing A_I2/A_O2/S2 when n2 == 0", "1-phase circuit; maul (A_I2, A_O2) -> (A_I2 - x D, A_O2 + D)"),
 "C06b": ("points absorbed through a fixed 32-byte compressed buffer (sign byte dropped)", "curve with 256-bit base field; P and -P absorbed identically"),
 "C07a": ("batch weights 1, 1, c, c^2, .. (powers of one random scalar via once(1).chain(exp_iter))", "correlated forgery pair at batch positions 0 and 1"),
 "C07b": ("batch accumulates only num_vars (not padded_n) G/H scalars", "any member circuit with a non-power-of-two gate count"),
 "C08a": ("batch_verify computes the padded size before verification_scalars runs the randomized phase", "randomized phase pushes the gate count across a power of two -> index out of bounds"),
 "C08b": ("from_bytes uses `?` through a From impl that maps io errors to SerializationError -> panicking arm", "truncated input (empty slice, strict prefix)"),
 "C09a": ("prover RNG rekeyed with the committed values v instead of the blinding factors", "only visible when opening commitments against the replayed RNG stream"),
 "C09b": ("second-phase blindings built as [rand(); 3]: one draw used three times", "circuit with multipliers allocated in the randomized phase"),
 "C10a": ("first-round R cross term scales a_R by G_factors[n..2n] instead of [0..n]", "circuit with multipliers in both phases (factors differ between halves)"),
 "C10b": ("round challenge drawn after L but before R (helper used by prover and verifier)", "adversarially altered last-round R; honest round trips unaffected"),
 "C11a": ("hand-written CanonicalDeserialize/Valid for InnerProductProof checks L_vec twice, never R_vec", "cofactor-8 curve, >= 2 gates, small-subgroup point in an R slot"),
 "C11b": ("all padding sites use padded_len(n) = 1 << (BITS - lz(n)), doubling exact powers of two", "1, 2, 4 or 8 gates: k+1 rounds, size law broken"),
 "C12a": ("label buffer hoisted out of the party loop: parties >= 1 derive G from the H label", "party_capacity >= 2"),
 "C12b": ("fast_forward skips nothing when n == 1 (if n > 1 { nth(n-1) })", "capacity increase while gens_capacity == 1"),
 "C13a": ("commit trims 'high zero limbs' but stops at the first zero limb", "value/blinding with a zero 64-bit limb below a non-zero limb (e.g. 2^64)"),
 "C13b": ("Prover::commit computes V by interleaved double-and-add over v_blinding.num_bits() only", "v has more bits than the blinding factor (e.g. blinding 0)"),
 "C14a": ("mul_by_a via raw Montgomery limb doubling ignoring the carry", "elements whose Montgomery form is >= 2^255 (e.g. 1/2)"),
 "C14b": ("COFACTOR = [8] with consistent COFACTOR_INV", "anything that reads the cofactor (rand, clear_cofactor): every generator changes"),
 "C15a": ("LC Add/Sub swap operands when the right side is longer; Sub then negates the wrong side", "a - (b + c) with a longer right operand, result used further"),
 "C15b": ("verifier flatten: constant term hoisted, assigned instead of accumulated", "a constraint with two or more constant terms"),
 "C16a": ("Prover::multiply clears the pending gate (prover only)", "sequence allocate, multiply, allocate"),
 "C16b": ("pending gate cleared after the randomized callbacks instead of before (both roles)", "unpaired allocate in phase 1 plus allocate inside a randomized closure"),
 "C17a": ("verifier capacity guard moved before the randomized phase (npo2(n1)), later guard removed", "second-phase gates push the padded size past the capacity -> panic instead of error"),
 "C17b": ("both roles absorb gens_capacity into the transcript", "prover and verifier capacities differ (both sufficient)"),
 "C18a": ("padding generator slots get factor 1 instead of u in prover and verifier", "gate count not a power of two; recorded proofs stop verifying"),
 "C18b": ("party index in the generator-chain label written big-endian", "party index >= 1 (multi-party tables)"),
}
NEEDS.update({
 "C01c": ("S2 built on gens.G(n2)/H(n2) instead of G(n).skip(n1)/H(n).skip(n1)", "gates in both phases (n1 > 0 and n2 > 0)"),
 "C01d": ("verifier feeds A_I2/A_O2/S2 through the identity-rejecting append when a randomized closure is registered", "closure that adds only linear constraints (prover sends identity points)"),
 "C02c": ("create_randomized_constraints runs only the first deferred callback (if let Some(..) = drain.next()) on both roles", "two or more randomized callbacks, violation outside the first"),
 "C02d": ("constrain() skips 'vacuous' constraints, is_vacuous implemented with any() instead of all()", "violated constraint containing a zero coefficient"),
 "C03c": ("identity check on the encoding (all-zero bytes) instead of the point: never fires in arkworks", "crafted proof with an identity mandatory point"),
 "C03d": ("constraint weights start at z^0 instead of z^1 in both flattenings (zip(exp_iter(z)) without skip(1))", "first constraint and first gate violated by opposite amounts; or spec-conforming proof"),
 "C06c": ("A_I1/A_O1/S1 absorbed after the randomized phase on both roles", "2-phase circuit whose randomized constraints refer to phase-1 wires"),
 "C06d": ("verifier squeezes the batching weight r from the live transcript instead of a clone", "returned transcripts compared / sequential composition on one transcript"),
 "C07c": ("batch weights squeezed from each instance's transcript clone keyed with one batch-wide value", "two proofs differing only in the final scalars a, b (not absorbed): weights collide"),
 "C07d": ("batch width measured before verification_scalars runs the randomized phase", "widest member gets gates in the randomized phase across a power of two"),
 "C08c": ("verifier capacity guard compares gens_capacity with the unpadded gate count n", "n <= capacity < padded_n: msm(..).unwrap() panics"),
 "C08d": ("from_bytes pre-reads the L_vec length with read_u64 guarded only by slice.len() < head_len", "input length in [head_len, head_len + 8)"),
 "C09c": ("s_L/s_R from a bulk sampler using from_random_bytes(..).unwrap_or_default()", "scalar field ~2^252 (curve25519/ed25519): about half the masks become 0"),
 "C09d": ("masking vectors expanded with ChaCha20 from one mask_key; phase 2 reuses key and streams of phase 1", "multipliers in both phases: s_L2 == s_L1, s_R2 == s_R1"),
 "C10c": ("first round drops cross-term contributions from the first zero of a onward (treated as padding)", "vector a with a zero followed by a non-zero entry"),
 "C10d": ("shape guards merged into lg_n >= 32 || n > (1 << lg_n)", "proof with surplus rounds for the claimed length"),
})
NEEDS.update({
 "C01h": ("verifier runs deferred randomized callbacks last-registered-first (while let Some(cb) = pop()), prover in registration order", "two or more randomized callbacks"),
 "C02h": ("constrain() on both roles stores lc.normalize(): sort + dedup_by that accumulates into the dropped element", "a variable repeated inside one constraint (a + a - V)"),
 "C03h": ("batch weights hoisted as vec![rand(prng); len]: one draw cloned for every instance", "two invalid members with opposite residuals in one batch"),
 "C04h": ("challenges u and x squeezed next to y, z, before T_1..T_6 are absorbed (both roles)", "padded size 1: (T_k, t_x_blinding) shifted by (d, x^k d) still verifies"),
 "C05h": ("commit() on both roles skips a repeated commitment (no push, no absorb, returns the existing variable)", "a commitment list with a repeated entry; extra/missing/reordered duplicates accepted"),
 "C06h": ("create/verify/verify_and_return_transcript absorb the final ipp scalars a, b; batch_verify does not", "batch verification followed by further use of the verifier transcript"),
 "C07h": ("batch_verify one-pass: shared G/H blocks adjusted with Vec::resize(padded_n), which also truncates", "a member with a smaller padded size after a larger one"),
 "C08h": ("scalars for A_I2/A_O2/S2 emitted only when n2 > 0, points included only when not all identity", "hostile proof making the two conditions disagree: msm(..).unwrap() panics"),
 "C09h": ("masking vectors merged into one pair; phase-2 fill loops over n1..n2 (count used as end index)", "multipliers in both phases: second-phase masks zero"),
 "C10h": ("create() fast path for n == 1 returns before innerproduct_domain_sep is absorbed; verifier still absorbs it", "length-1 argument followed by another argument on the same transcript"),
 "C11h": ("from_bytes pre-reads the L count at header_len guarded only by slice.len() < header_len (header counts 3 of 5 scalars)", "prefix lengths in [header_len, header_len+8): panic instead of FormatError"),
 "C12h": ("increase_capacity appends next_power_of_two(new) - old points while gens_capacity stays new", "resize from a non-power-of-two capacity: later growth duplicates generators"),
 "C13h": ("commit rewritten as shared double-and-add with sign-adjusted bases; the combined table entry uses the raw bases", "short negative value or blinding sharing a set bit with the other scalar"),
 "C15h": ("LinearCombination gets a separate constant field; Neg and Mul still only walk terms", "negation or scaling of an expression containing a constant"),
 "C16h": ("pending reset moved into the 2-phase branch; verifier resets inside the callback loop, prover once before it", "a randomized callback leaving an unpaired allocate followed by another allocating callback"),
 "C17h": ("prover's early gens_capacity < n1 guard removed as 'redundant'", "capacity below n1: first-phase msm(..).unwrap() panics instead of the error"),
 "C18h": ("multiply/allocate_multiplier/allocate(None) routed through push_multiplier which also clears the pending gate (both roles)", "allocate, multiply, allocate: wiring differs from the reference, recorded proofs rejected"),
})
NEEDS.update({
 "C01i": ("verification_scalars skips (continue) the scalar of a commitment whose flattened weight is zero; the point lists keep every V", "a commitment no constraint mentions, or whose coefficients cancel: msm length mismatch panics on an honest proof"),
 "C02i": ("constraint count q captured before the randomized callbacks; z powers precomputed with take(q) and zipped with the constraints (both roles)", "a violated constraint added in the second phase gets weight 0"),
 "C03i": ("verifier flatten: `if lc.terms.is_empty() { continue; }` also skips exp_z *= z", "an empty linear combination that is not the last constraint"),
 "C05i": ("both flattenings return all-zero weights early when the multiplier count is 0", "purely linear circuit over committed values: changed coefficient or constant accepted"),
 "C06i": ("Verifier::commit returns the existing variable early for a repeated point (no push, no absorb); prover unchanged", "the same commitment point committed twice"),
 "C07i": ("batch_verify skips (continue) an instance whose proof reference was already seen in the batch, ignoring the verifier it is paired with", "the same proof object twice, the second time against a different statement"),
 "C08i": ("ipp verification_scalars collects round challenges with flat_map over a Result-returning helper: Err items are dropped", "identity point in L_vec/R_vec with correct list lengths: challenges too short, index panic"),
 "C09i": ("prover RNG builder created lazily in the first commit() from the transcript of that moment; prove only finalizes it", "two statements diverging after the first commitment with equal blindings and external randomness: identical nonces"),
 "C10i": ("ipp verification_scalars replays the L/R rounds on transcript.clone() and never merges the fork back", "a verifier transcript reused after an argument with at least one round"),
 "C11i": ("hand-written CanonicalDeserialize for InnerProductProof reads a, b with from_random_bytes (masks the spare top bits)", "scalar field shorter than 256 bits: non-canonical a/b accepted, re-encodes differently"),
 "C12i": ("increase_capacity records the new capacity (mem::replace) before the nothing-to-do early return", "a request smaller than the current capacity followed by a real increase: generators duplicated"),
 "C13i": ("commit as one shared double-and-add chain with terms ordered by two independent comparisons (v >= r, v <= r)", "value == blinding: commit(s,s) = 2sB"),
 "C15i": ("LC Add/Sub through append_with(self, rhs, f) which returns rhs unchanged when the left side is empty", "subtraction from an empty linear combination: 0 - e yields e"),
 "C16i": ("Verifier::commit returns the existing Committed(i) early when the point is already in V (prover untouched)", "commit(X), commit(X), commit(Y): handles shifted on the verifier"),
 "C17i": ("shared padded_circuit_size(n, bp_gens) helper returns Ok(1) for n == 0 before the capacity comparison", "zero gates and capacity 0: panic instead of InvalidGeneratorsLength"),
 "C18i": ("append_point silently appends nothing for an identity point (if let Ok(bytes) = encode_point(..))", "one-phase circuits: A_I2/A_O2/S2 no longer absorbed on either side, recorded proofs rejected"),
})
NEEDS.update({
 "C04i": ("round challenges u_j pulled from one ChaCha stream keyed once after the ipp domain separator (both roles); L_j, R_j still absorbed", "at least one round: (L_j, R_j) -> (L_j + D, R_j - u_j^4 D) still verifies"),
})
NEEDS.update({
 "C01j": ("verifier squeezes the batching weight r from the live transcript instead of a clone", "a second proof on the same running transcript is rejected"),
 "C02j": ("constraint weights via scalar_exp_vartime(z, j+1) that loops over size_of::<usize>() = 8 bit positions: z^((j+1) mod 256)", "more than 256 constraints with cancelling violations 256 apart"),
 "C03j": ("round-count guard lg_n >= 32 became lg_n > MAX_FOLDING_ROUNDS with MAX_FOLDING_ROUNDS = u8::BITS (8)", "honest proofs with 9 or more rounds (more than 256 multipliers) rejected"),
 "C04j": ("append_point serialises inside debug_assert!(..is_ok()); validate_and_append_point delegates to it", "--release: every point absorbed as an empty message, offset pairs accepted"),
 "C05j": ("the three serialize_uncompressed(..).unwrap() of transcript.rs moved inside debug_assert!", "--release: commitments no longer bind the challenges; reordered / offset commitment lists accepted"),
 "C06j": ("RandomizingProver/Verifier cache randomized-phase challenges by label", "the same label drawn twice in the randomized phase: second challenge binds nothing new"),
 "C07j": ("batch_verify adds `if gens_capacity <= max_n_padded { return Err(InvalidGeneratorsLength) }`", "widest member's padded size equals the generator capacity: valid batch rejected"),
 "C08j": ("shape guard n != (1 << lg_n) weakened to (1 << lg_n) > n", "equally short L/R lists: index underflow panic instead of an error"),
 "C09j": ("external randomness drawn into a seed inside debug_assert!(prng.try_fill_bytes(..).is_ok()), RNG finalised from that seed", "--release: caller randomness never reaches the prover RNG"),
 "C10j": ("rounds 2..k of create absorb L/R through debug_assert!(transcript.validate_and_append_point(..).is_ok())", "--release and at least 2 rounds: honest arguments rejected"),
 "C11j": ("to_bytes serialises into a thread_local scratch Cursor that is rewound but never cleared", "a smaller proof encoded after a larger one on the same thread keeps the stale tail"),
 "C12j": ("fast_forward advances the chain with debug_assert!(self.next().is_some())", "--release and increase_capacity from a non-zero capacity: nothing skipped, generators duplicated"),
 "C13j": ("commit as interleaved double-scalar multiplication; the skip of the padding bits sits inside debug_assert_eq!", "--release on a curve whose scalar size is not a multiple of 64 bits: low bits lost"),
 "C15j": ("LC Sub appends the right-hand terms and negates them through debug_assert!(self.negate_from(from))", "--release: a - b denotes a + b"),
 "C16j": ("Verifier::pending_multiplier becomes Option<NonZeroUsize> (NonZeroUsize::new(0) is None)", "the first gate (index 0) opened by a single allocate: verifier handles shifted"),
 "C17j": ("padded-size guard rewritten as gens_capacity.saturating_sub(n) < pad on both roles", "capacity < n with n a power of two (pad = 0): panic instead of the error"),
 "C18j": ("PedersenGens::default caches the blinding-base seed in a static OnceLock inside a generic function (shared by all curves)", "two curves used in one process: B_blinding of the second differs from the reference"),
})
sid = sys.argv[1]
src = f"/tmp/seed_out/{sid}"
dst = f"/verif/seeded/{sid}"
conf = open(os.path.join(src, "confirm.txt")).read() if os.path.exists(os.path.join(src, "confirm.txt")) else ""
m = re.search(r"CONFIRMED=(\w+)", conf)
if not (m and m.group(1) == "True") and "--force" not in sys.argv:
    print(sid, "not confirmed; skipping"); sys.exit(1)
os.makedirs(dst, exist_ok=True)
for f in ("patch.diff", "seed_demo.rs", "notes.md", "confirm.txt"):
    if os.path.exists(os.path.join(src, f)):
        shutil.copy(os.path.join(src, f), os.path.join(dst, f))
what, needs = NEEDS.get(sid, ("", ""))
meta = {
 "id": sid, "breaks_property": sid[:3], "change": what, "needs_to_manifest": needs,
 "origin": ("written by an independent sub-agent given only the property text and a scratch worktree" + (", asked for two cooperating sites / a multi-step sequence / an unusual input (round h)" if sid.endswith("h") else (", asked for a control-flow slip / an error-path or partial-update slip / an abstraction slip (round i)" if sid.endswith("i") else (", asked for a numeric/representation slip, an API-sequence or cached-state slip, or build-dependent behaviour (round j; demos of build-dependent seeds run with --release)" if sid.endswith("j") else "")))),
 "confirmed_by": "tools/confirm_seed.sh in a scratch worktree outside /repo and /verif: demo passes on the pristine tree; with the patch all 78 existing tests pass and the demo fails",
 "confirm_verdict": (re.search(r"== verdict: (.*)", conf).group(1) if re.search(r"== verdict: (.*)", conf) else "see confirm.txt"),
 "demo": "seed_demo.rs (place at tests/seed_demo.rs; `cargo test --offline --test seed_demo`)",
}
json.dump(meta, open(os.path.join(dst, "meta.json"), "w"), indent=1)
print("imported", sid)

#!/usr/bin/env python3
"""Freeze the reviewed names and signatures of the crate's own inherent / free functions into spec/fn_sigs.json.

Rules anchor functions by def path.  A private function that was only renamed keeps its container and its signature:
rules/facts.py maps it back to the reviewed name before any rule runs (see `canon_fn_names`).  Regenerate only after
reviewing a structural change."""
import json
import os
import sys

ROOT = os.path.dirname(os.path.dirname(os.path.abspath(__file__)))
sys.path.insert(0, ROOT)
from rules import facts  # noqa: E402

F = facts.load("default")
out = {}
for p, fn in F.fns.items():
    if fn.get("expn") or p.startswith(("curve::", "<")) or "{closure" in p or "::tests::" in p or "::test" in p:
        continue
    out[p] = facts.fn_sig(fn)
with open(os.path.join(ROOT, "spec", "fn_sigs.json"), "w") as f:
    json.dump(out, f, indent=1, sort_keys=True)
print(len(out), "functions")

#!/bin/bash
# type-checks the compile-fail witnesses and their compiling twins against the current /repo tree (nothing is executed)
REPO=${BPV_REPO:-/repo}; W=/verif/witness; WORK=${BPV_WORK:-/verif/.work}
sed "s#@REPO@#$REPO#" $W/Cargo.toml.in > $W/Cargo.toml
cp $REPO/Cargo.lock $W/Cargo.lock 2>/dev/null
cd $W && CARGO_NET_OFFLINE=true CARGO_TARGET_DIR=$WORK/target-witness cargo +nightly test --doc --offline 2>&1 | grep -E "^test |^test result|error(\[|:)" | head -60

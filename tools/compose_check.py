#!/usr/bin/env python3
"""Composition test (checker validation): a seeded change applied ON TOP OF a behaviour-preserving rewrite must still be
detected by its own property's check.  For every seed, up to K rewrites that touch the same file(s) and still let the
seed's patch apply are tried.  usage: compose_check.py [K] [seed-id ...]   (scratch dir: $MXDIR or /tmp/mxc)"""
import glob
import os
import random
import re
import subprocess
import sys

ROOT = os.path.dirname(os.path.dirname(os.path.abspath(__file__)))
MX = os.environ.get("MXDIR", "/tmp/mxc")
repo = os.path.join(MX, "repo")


def sh(*a, **k):
    return subprocess.run(a, capture_output=True, text=True, **k)


def files_of(patch):
    return set(re.findall(r"^\+\+\+ b/(\S+)", open(patch).read(), re.M))


def main():
    args = sys.argv[1:]
    K = int(args[0]) if args and args[0].isdigit() else 3
    ids = [a for a in args if not a.isdigit()] or sorted(os.path.basename(d) for d in glob.glob(os.path.join(ROOT, "seeded", "C*")))
    os.makedirs(MX, exist_ok=True)
    if not os.path.isdir(repo):
        sh("git", "-C", "/repo", "worktree", "add", "-q", "--detach", repo, "HEAD")
    env = dict(os.environ, BPV_REPO=repo, BPV_WORK=os.path.join(MX, "work"), BPV_EVID=os.path.join(MX, "evidence"))
    os.makedirs(env["BPV_WORK"], exist_ok=True)
    os.makedirs(env["BPV_EVID"], exist_ok=True)
    benign = sorted(glob.glob(os.path.join(ROOT, "selftest", "benign", "*.patch")) + glob.glob(os.path.join(ROOT, "selftest", "benign_ext", "*.patch")))
    bfiles = {b: files_of(b) for b in benign}
    rnd = random.Random(7)
    missed = 0
    total = 0
    for sid in ids:
        sp_ = os.path.join(ROOT, "seeded", sid, "patch.diff")
        own = sid[:3]
        sf = files_of(sp_)
        cands = [b for b in benign if bfiles[b] & sf]
        rnd.shuffle(cands)
        done = 0
        for b in cands:
            if done >= K:
                break
            sh("git", "-C", repo, "checkout", "-q", "--", ".")
            sh("git", "-C", repo, "clean", "-fdq", "src")
            if sh("git", "-C", repo, "apply", b).returncode != 0:
                continue
            if sh("git", "-C", repo, "apply", sp_).returncode != 0 and sh("git", "-C", repo, "apply", "-3", sp_).returncode != 0:
                continue
            if "<<<<<<<" in sh("git", "-C", repo, "diff").stdout:
                continue
            r = sh("./bpv", "check", own, cwd=ROOT, env=env)
            if "extract-failed" in r.stdout:
                continue  # the composition does not compile
            done += 1
            total += 1
            hit = re.search(r"violations=([1-9]\d*)", r.stdout) is not None
            rules = sorted(set(re.findall(r"rule=(\S+) instance=(\S+) kind=(\S+)", r.stdout)))[:2]
            if not hit:
                missed += 1
            print(f"{sid} on {os.path.basename(b)}: {'caught' if hit else 'MISSED'} {rules}", flush=True)
    sh("git", "-C", repo, "checkout", "-q", "--", ".")
    print(f"compositions={total} missed={missed}")
    sys.exit(1 if missed else 0)


if __name__ == "__main__":
    main()

#!/usr/bin/env python3
"""Mutation campaign against the checker (checker validation, not property evidence).

Generates single-site source mutants of /repo (operator, comparison, literal, index, deletion), applies each to a
scratch copy, runs `bpv all` there and records which checks fire.  Survivors (no check fires) are listed for manual
triage: equivalent mutant, or blind spot.  usage: mutate.py <count> <seed> [outfile]
"""
import json
import os
import random
import re
import subprocess
import sys

FILES = ["src/r1cs/verifier.rs", "src/r1cs/prover.rs", "src/inner_product_proof.rs", "src/transcript.rs", "src/generators.rs", "src/r1cs/linear_combination.rs", "src/r1cs/proof.rs", "src/util.rs", "src/errors.rs", "src/curve/zorro/g1.rs"]
MX = os.environ.get("MXDIR", "/tmp/mxm")


def candidates(repo):
    out = []
    for f in FILES:
        lines = open(os.path.join(repo, f)).read().split("\n")
        in_test = False
        for i, l in enumerate(lines):
            if "#[cfg(test)]" in l:
                in_test = True
            if in_test:
                continue
            s = l.strip()
            if not s or s.startswith(("//", "///", "use ", "#", "pub use", "extern", "mod ", "type ", "impl", "fn ", "pub fn", "pub(", "where", "}")) or "->" in s or "assert" in s or "write!(" in s:
                continue
            ops = []
            for a, b in ((" + ", " - "), (" - ", " + "), (" * ", " + "), (" += ", " -= "), (" -= ", " += ")):
                if a in l and "<" not in l.split(a)[0][-12:]:
                    ops.append(("arith", a, b))
            for a, b in ((" < ", " <= "), (" >= ", " > "), (" != ", " == "), (" == ", " != "), (" > ", " >= ")):
                if a in l and ("if " in l or "while " in l):
                    ops.append(("cmp", a, b))
            m = re.search(r'b"([A-Za-z_0-9 -]+)"', l)
            if m:
                ops.append(("label", m.group(0), 'b"' + m.group(1) + 'x"'))
            for a, b in ((".take(n1)", ".take(n)"), (".take(n)", ".take(n1)"), ("0..n", "1..n"), ("[0..n]", "[0..n1]"), ("n2 + pad", "n2"), (".skip(n1)", ".skip(0)"), ("2 + ", "1 + "), ("(lg_n - 1)", "lg_n"), ("i + 2", "i + 1"), ("padded_n", "n"), ("x * ", "xx * "), ("u_inv", "u"), ("::one()", "::zero()"), ("::zero()", "::one()"), ("&proof.A_I1", "&proof.A_O1"), ("proof.t_x", "proof.t_x_blinding"), ("T_3", "T_4"), (".rev()", ""), ("fast_forward(self.gens_capacity)", "fast_forward(0)"), ("B_blinding", "B")):
                if a in l:
                    ops.append(("subst", a, b))
            if s.endswith(";") and ("append_" in s or ".push(" in s or "extend_from_slice" in s or "= None;" in s) and "let " not in s:
                ops.append(("delete", None, None))
            for op in ops:
                out.append((f, i, op))
    return out


def apply(repo, f, i, op):
    p = os.path.join(repo, f)
    lines = open(p).read().split("\n")
    kind, a, b = op
    old = lines[i]
    if kind == "delete":
        lines[i] = ""
    else:
        lines[i] = old.replace(a, b, 1)
    open(p, "w").write("\n".join(lines))
    return old, lines[i]


def main():
    count, seed = int(sys.argv[1]), int(sys.argv[2])
    outfile = sys.argv[3] if len(sys.argv) > 3 else "/tmp/seed_out/mutants.jsonl"
    os.makedirs(MX, exist_ok=True)
    repo = os.path.join(MX, "repo")
    if not os.path.isdir(repo):
        subprocess.run(["git", "-C", "/repo", "worktree", "add", "-q", "--detach", repo, "HEAD"], check=True)
    subprocess.run(["git", "-C", repo, "checkout", "-q", "--detach", subprocess.check_output(["git", "-C", "/repo", "rev-parse", "HEAD"], text=True).strip()])
    env = dict(os.environ, BPV_REPO=repo, BPV_WORK=os.path.join(MX, "work"), BPV_EVID=os.path.join(MX, "evidence"))
    os.makedirs(env["BPV_WORK"], exist_ok=True)
    os.makedirs(env["BPV_EVID"], exist_ok=True)
    cands = candidates(repo)
    random.Random(seed).shuffle(cands)
    done = 0
    with open(outfile, "a") as out:
        for f, i, op in cands:
            if done >= count:
                break
            subprocess.run(["git", "-C", repo, "checkout", "-q", "--", "."])
            old, new = apply(repo, f, i, op)
            if old == new:
                continue
            r = subprocess.run(["./bpv", "all"], cwd="/verif", env=env, capture_output=True, text=True)
            txt = r.stdout
            fired = re.findall(r"^\[(C\d+)\] .* violations=([1-9]\d*)", txt, re.M)
            nocompile = "extract-failed" in txt
            rules = sorted(set(re.findall(r"rule=(\S+) instance=(\S+)", txt)))[:8]
            rec = {"file": f, "line": i + 1, "op": op[0], "old": old.strip()[:140], "new": new.strip()[:140], "compiles": not nocompile, "fired": [x[0] for x in fired], "rules": rules}
            out.write(json.dumps(rec) + "\n")
            out.flush()
            done += 1
    subprocess.run(["git", "-C", repo, "checkout", "-q", "--", "."])


if __name__ == "__main__":
    main()

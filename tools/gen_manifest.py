#!/usr/bin/env python3-vt
"""Writes MANIFEST.json from the per-property CLAIM tables in rules/props/*.py (single source of truth)."""
import importlib, json, os, sys
ROOT = os.path.dirname(os.path.dirname(os.path.abspath(__file__)))
sys.path.insert(0, ROOT)
checks, na = [], []
for i in range(1, 19):
    pid = f"C{i:02d}"
    try:
        mod = importlib.import_module(f"rules.props.{pid}")
        claim = getattr(mod, "CLAIM", None)
    except ModuleNotFoundError:
        claim = None
    if not claim:
        na.append({"property_id": pid, "reason": "check not built yet at this commit (see DESIGN.md section 9 build order); no verdict is claimed"})
        continue
    checks.append({
        "property_id": pid,
        "quick_cmd": f"./bpv check {pid} --tier quick",
        "thorough_cmd": f"./bpv check {pid} --tier thorough",
        "evidence_file": f"evidence/{pid}.json",
        "replay_cmd_template": "cat {path}",
        "engine": claim["engine"],
        "level_claimed": {"category": claim["level"], "text": claim["text"], "design_ref": claim["design_ref"]},
        "level_note": claim["note"],
        "technique": claim["technique"],
    })
man = {
    "version": 1,
    "setup_cmd": "cd /verif/bpfacts && CARGO_NET_OFFLINE=true cargo build --offline && cd /verif && ./bpv extract default",
    "hooks": {
        "guard": "ark_bulletproofs_verif",
        "enable": "none needed: the analysis reads the unmodified source through a rustc_private driver (RUSTC_WORKSPACE_WRAPPER under cargo +nightly check)",
        "baseline_off_cmd": "cd /repo && cargo test --workspace --no-fail-fast --offline",
        "source_commits": json.load(open(os.path.join(ROOT, "known_findings.json"))).get("source_commits", []) if os.path.exists(os.path.join(ROOT, "known_findings.json")) else [],
        "add_only": True,
    },
    "engines": [
        {"name": "bpfacts", "path": "bpfacts/", "serves_properties": [c["property_id"] for c in checks], "kind_free_text": "rustc_private driver: serialises items, typed+resolved HIR, MIR CFGs and const-evaluated constants of /repo's lib target; contains no rules"},
        {"name": "rules", "path": "rules/", "serves_properties": [c["property_id"] for c in checks], "kind_free_text": "Python rule engines over the extracted facts (CONST, WIRE, SCHED, PANIC, TERM, TWIN)"},
    ],
    "checks": checks,
    "not_applicable": na,
    "notes": "Static analysis only: nothing of /repo is executed. See DESIGN.md.",
}
json.dump(man, open(os.path.join(ROOT, "MANIFEST.json"), "w"), indent=1)
print("claimed:", [c["property_id"] for c in checks], "n/a:", [n["property_id"] for n in na])

#!/bin/bash
# confirm_seed.sh <seed id, e.g. C07a> : confirm a seeded change in its scratch worktree
# (pristine: demo passes; patched: 78 existing tests pass, demo fails). Writes confirm.txt.
ID=$1; BASE=${ID:0:3}; WT=${WTROOT:-/tmp/wt}/$BASE; D=/tmp/seed_out/$ID
cd $WT || exit 2
git checkout -q -- . ; rm -f tests/seed_demo.rs
cp $D/seed_demo.rs tests/seed_demo.rs
export CARGO_NET_OFFLINE=true
P=$(cargo test --offline ${DEMOFLAGS:-} --test seed_demo 2>&1 | grep -E "^test result|^error(\[|:)" | head -5)
git apply $D/patch.diff || { echo "APPLY FAILED" > $D/confirm.txt; exit 1; }
if [ -n "${DEMOFLAGS:-}" ]; then
  # build-dependent seed: the 78 existing tests run in the default configuration (demo excluded), the demo under DEMOFLAGS
  mv tests/seed_demo.rs /tmp/seed_demo_$ID.rs
  ALL=$(cargo test --offline --no-fail-fast 2>&1 | grep -E "^test result|Running|^error(\[|:)|^test .* FAILED" | head -60)
  mv /tmp/seed_demo_$ID.rs tests/seed_demo.rs
  ALL="$ALL
$(cargo test --offline ${DEMOFLAGS} --test seed_demo 2>&1 | grep -E "^test result|Running|^error(\[|:)" | head -6)"
else
  ALL=$(cargo test --offline --no-fail-fast 2>&1 | grep -E "^test result|Running|^error(\[|:)|^test .* FAILED" | head -60)
fi
git checkout -q -- . ; rm -f tests/seed_demo.rs
{ echo "== pristine: demo"; echo "$P"; echo "== patched: full suite + demo"; echo "$ALL"; } > $D/confirm.txt
python3 - "$D" <<'PY'
import sys,re
t=open(sys.argv[1]+'/confirm.txt').read()
pri,pat=t.split('== patched')
ok_pri=bool(re.search(r'test result: ok',pri)) and 'FAILED' not in pri
# in patched part: sum passed of non-demo runs, and demo must fail
runs=re.split(r'\n\s*Running ',pat)
passed=0; demo_failed=False; other_failed=False
for r in runs:
    m=re.search(r'test result: (\w+)\. (\d+) passed; (\d+) failed',r)
    if not m: continue
    if 'seed_demo' in r.split('\n')[0]:
        demo_failed = m.group(1)!='ok'
    else:
        passed+=int(m.group(2)); other_failed |= int(m.group(3))>0
v = ok_pri and demo_failed and passed>=78 and not other_failed
open(sys.argv[1]+'/confirm.txt','a').write(f"\n== verdict: pristine_demo_ok={ok_pri} patched_demo_failed={demo_failed} existing_passed={passed} existing_failed={other_failed} CONFIRMED={v}\n")
print(sys.argv[1], 'CONFIRMED' if v else 'NOT-CONFIRMED', passed)
PY

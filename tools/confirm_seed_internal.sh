#!/bin/bash
# like confirm_seed.sh, for demos that are crate-internal test modules (src/seed_demo.rs + `#[cfg(test)] mod seed_demo;` in lib.rs)
ID=$1; BASE=${ID:0:3}; WT=${WTROOT:-/tmp/wt}/$BASE; D=/tmp/seed_out/$ID
cd $WT || exit 2
git checkout -q -- . ; rm -f tests/seed_demo.rs src/seed_demo.rs
cp $D/seed_demo.rs src/seed_demo.rs; printf '\n#[cfg(test)]\nmod seed_demo;\n' >> src/lib.rs
export CARGO_NET_OFFLINE=true
P=$(cargo test --offline --lib seed_demo 2>&1 | grep -E "^test result|error(\[|:)" | head -3)
cp src/lib.rs /tmp/lib_wired_$ID.rs; git checkout -q -- src/lib.rs
git apply $D/patch.diff || { echo "APPLY FAILED" > $D/confirm.txt; exit 1; }
printf '\n#[cfg(test)]\nmod seed_demo;\n' >> src/lib.rs
A=$(cargo test --offline --no-fail-fast 2>&1 | grep -E "^test result|Running|^test seed_demo.*FAILED" | head -30)
git checkout -q -- . ; rm -f src/seed_demo.rs
NF=$(echo "$A" | grep -c "^test seed_demo.*FAILED")
LIBLINE=$(echo "$A" | grep -A1 "unittests src/lib.rs" | grep "test result")
PASSED=$(echo "$LIBLINE" | sed -E 's/.* ([0-9]+) passed.*/\1/'); FAILED=$(echo "$LIBLINE" | sed -E 's/.* ([0-9]+) failed.*/\1/')
OTHERS=$(echo "$A" | grep "test result" | grep -v "$LIBLINE" | grep -c "FAILED")
OKP=$(echo "$P" | grep -c "test result: ok")
V=False; [ "$OKP" = "1" ] && [ "$NF" -ge 1 ] && [ "$NF" = "$FAILED" ] && [ "$OTHERS" = "0" ] && V=True
{ echo "== pristine: demo (src/seed_demo.rs wired into lib.rs)"; echo "$P"; echo "== patched: full suite + demo"; echo "$A"; echo; echo "== verdict: pristine_demo_ok=$OKP demo_tests_failed=$NF lib_failed_total=$FAILED (all failures are demo tests) other_suites_failed=$OTHERS CONFIRMED=$V"; } > $D/confirm.txt
echo "$D CONFIRMED=$V"

#!/bin/bash
# try_patch.sh <patch.diff> <Cxx> [Cyy ...] : apply a patch to /repo, run quick checks, undo. Prints verdict lines.
P=$1; shift
cd /repo || exit 2
if ! git diff --quiet; then echo "repo dirty, refusing"; exit 2; fi
git apply "$P" 2>/dev/null || git apply -3 "$P" 2>/dev/null || { patch -p1 --no-backup-if-mismatch -s < "$P" || { echo "APPLY-FAILED $P"; git checkout -- .; exit 3; }; }
for c in "$@"; do
  OUT=$(cd /verif && ./bpv check $c 2>&1)
  RC=$?
  echo "== $c rc=$RC $(echo "$OUT" | grep -c '^VIOLATION') violation(s)"
  echo "$OUT" | grep -A3 '^VIOLATION' | grep -v '^VIOLATION\|^--' | cut -c1-${W:-260} | head -${N:-12}
done
git checkout -- . ; git status --short | head -3

#!/usr/bin/env python3
"""RULES.md: inventory of rule instances per property, generated from the evidence files of the last runs"""
import json, glob, collections
out = ["# Rule inventory (generated from evidence/*.json by tools/rule_inventory.py)", "",
       "One line per rule of each property: number of instances evaluated on the current tree and a few instance names.", ""]
for f in sorted(glob.glob("/verif/evidence/C*.json")):
    e = json.load(open(f))
    cov = e["coverage"]
    by = collections.OrderedDict()
    for o in cov["obligation_list"]:
        by.setdefault(o["rule"], []).append(o["instance"])
    out.append(f"## {e['property_id']}  (level {e['level']}; {cov['obligations']} obligations, {cov['discharged']} discharged; floors: " + ", ".join(f"{x['name']} {x['measured']}>={x['floor']}" for x in cov.get('floors', [])) + ")")
    out.append("")
    out.append("| rule | instances | examples |")
    out.append("|---|---|---|")
    for r, inst in by.items():
        ex = "; ".join(str(i)[:60] for i in inst[:4])
        out.append(f"| {r} | {len(inst)} | {ex} |")
    out.append("")
    out.append("functions analysed: " + ", ".join(x.split("::")[-1] if "<" not in x else x[-50:] for x in cov.get("functions_analysed", [])[:14]) + (" ..." if len(cov.get("functions_analysed", [])) > 14 else ""))
    out.append("")
open("/verif/RULES.md", "w").write("\n".join(out))
print("wrote RULES.md", len(out), "lines")

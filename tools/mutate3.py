#!/usr/bin/env python3
"""Third mutation campaign against the checker (checker validation, not property evidence).

Operators the first two campaigns (tools/mutate.py) did not have:
  idswap    one identifier occurrence replaced by another identifier that occurs in the same function
            (the compiler filters the ill-typed ones: what is left are same-type confusions such as x/y, a_L/a_R, n/n1)
  stmtswap  two adjacent simple statements exchanged
  argswap   the two arguments of a two-argument call exchanged
  intlit    an integer literal moved by one
  method    a method replaced by a sibling (skip/take, min/max, square/double, iter().rev(), ..)
  negcond   an `if` condition negated
  delstmt   a whole simple statement (not a `let`) deleted
Each mutant is applied to a scratch copy, `bpv all` runs there, and the checks that fire are recorded.  Survivors are
listed for manual triage (equivalent mutant or blind spot).
usage: mutate3.py <count> <seed> <outfile> [-j K]
"""
import json
import multiprocessing
import os
import random
import re
import subprocess
import sys

FILES = ["src/r1cs/verifier.rs", "src/r1cs/prover.rs", "src/inner_product_proof.rs", "src/transcript.rs", "src/generators.rs", "src/r1cs/linear_combination.rs", "src/r1cs/proof.rs", "src/util.rs", "src/r1cs/constraint_system.rs"]
MX = os.environ.get("MXDIR", "/tmp/mxm3")
ROOT = os.path.dirname(os.path.dirname(os.path.abspath(__file__)))
KEYWORDS = set("as break const continue crate else enum extern false fn for if impl in let loop match mod move mut pub ref return self Self static struct super trait true type unsafe use where while dyn Ok Err Some None Vec Option Result usize u8 u32 u64 i32 bool F G T R S C CS".split())
IDENT = re.compile(r"(?<![A-Za-z0-9_\.:'\"])([a-z][A-Za-z0-9_]*)(?![A-Za-z0-9_!\(:\"])")
METHODS = [(".skip(", ".take("), (".take(", ".skip("), (".max(", ".min("), (".min(", ".max("), (".square()", ".double()"), ("iter().rev()", "iter()"), (".rev()", ""), (".iter()", ".iter().rev()"), (".next_power_of_two()", ""), (".last()", ".first()"), (".first()", ".last()"), ("split_at(", "split_at_mut("), (".is_zero()", ".is_one()"), (".cloned()", ".cloned().rev()"), (" / 2", " / 4"), ("trailing_zeros()", "leading_zeros()"), ("extend(", "extend_from_slice(&"), (".chain(", ".zip("), ("&mut ", "& ")]


def functions(lines):
    """(start, end) line ranges of fn bodies, lexical, outside #[cfg(test)]"""
    out = []
    in_test = False
    i = 0
    while i < len(lines):
        l = lines[i]
        if "#[cfg(test)]" in l:
            in_test = True
        if in_test:
            i += 1
            continue
        if re.match(r"\s*(pub(\([a-z]+\))?\s+)?(const\s+)?fn\s+\w+", l):
            ind = len(l) - len(l.lstrip())
            j = i + 1
            while j < len(lines) and not (lines[j].startswith(" " * ind + "}") and len(lines[j]) - len(lines[j].lstrip()) == ind):
                j += 1
            out.append((i, j))
            i = j
        i += 1
    return out


def candidates(repo):
    out = []
    for f in FILES:
        lines = open(os.path.join(repo, f)).read().split("\n")
        for (a, b) in functions(lines):
            idents = set()
            for k in range(a, min(b + 1, len(lines))):
                s = lines[k].split("//")[0]
                for m in IDENT.finditer(s):
                    if m.group(1) not in KEYWORDS:
                        idents.add(m.group(1))
            for k in range(a + 1, min(b, len(lines))):
                l = lines[k]
                s = l.strip()
                if not s or s.startswith(("//", "#", "use ")) or "assert" in s:
                    continue
                code = l.split("//")[0]
                nostr = re.sub(r'"(?:[^"\\]|\\.)*"', lambda m_: " " * len(m_.group(0)), code)  # identifiers inside string literals are text
                for m in IDENT.finditer(nostr):
                    w = m.group(1)
                    if w in KEYWORDS:
                        continue
                    for other in sorted(idents):
                        if other != w and (other[0] == w[0] or len(other) <= 3 or other.split("_")[0] == w.split("_")[0] or other.split("_")[-1] == w.split("_")[-1]):
                            out.append((f, k, ("idswap", m.start(1), w, other)))
                if k + 1 < b:
                    n = lines[k + 1]
                    if s.endswith(";") and n.strip().endswith(";") and (len(l) - len(l.lstrip())) == (len(n) - len(n.lstrip())) and s.count("(") == s.count(")") and n.strip().count("(") == n.strip().count(")") and not s.startswith("return") and not n.strip().startswith("return"):
                        out.append((f, k, ("stmtswap", None, None, None)))
                for m in re.finditer(r"\(([A-Za-z_&\*\.\[\]0-9 ]+), ([A-Za-z_&\*\.\[\]0-9 ]+)\)", code):
                    if m.group(1).strip() != m.group(2).strip():
                        out.append((f, k, ("argswap", m.start(0), m.group(0), "(" + m.group(2) + ", " + m.group(1) + ")")))
                for m in re.finditer(r"(?<![A-Za-z0-9_\.])(\d+)(?![A-Za-z0-9_\.])", code):
                    v = int(m.group(1))
                    for nv in ([v + 1] if v == 0 else [v - 1, v + 1]):
                        out.append((f, k, ("intlit", m.start(1), m.group(1), str(nv))))
                for x, y in METHODS:
                    if x in code:
                        out.append((f, k, ("method", code.index(x), x, y)))
                m = re.match(r"(\s*(?:\} else )?if )(?!let )(.*)( \{\s*)$", l)
                if m:
                    out.append((f, k, ("negcond", None, None, None)))
                if s.endswith(";") and not s.startswith(("let ", "return")) and s.count("(") == s.count(")") and s.count("{") == s.count("}"):
                    out.append((f, k, ("delstmt", None, None, None)))
    return out


def apply(repo, f, k, op):
    p = os.path.join(repo, f)
    lines = open(p).read().split("\n")
    kind, pos, a, b = op
    old = lines[k]
    if kind in ("idswap", "argswap", "intlit", "method"):
        lines[k] = old[:pos] + b + old[pos + len(a):]
        new = lines[k]
    elif kind == "stmtswap":
        lines[k], lines[k + 1] = lines[k + 1], lines[k]
        old = old + " | " + lines[k]
        new = lines[k] + " | " + lines[k + 1]
    elif kind == "negcond":
        m = re.match(r"(\s*(?:\} else )?if )(?!let )(.*)( \{\s*)$", old)
        lines[k] = m.group(1) + "!(" + m.group(2) + ")" + m.group(3)
        new = lines[k]
    elif kind == "delstmt":
        lines[k] = ""
        new = ""
    open(p, "w").write("\n".join(lines))
    return old, new


def worker(args):
    w, cands, outfile = args
    D = os.path.join(MX, "w%d" % w)
    os.makedirs(D, exist_ok=True)
    repo = os.path.join(D, "repo")
    if not os.path.isdir(repo):
        subprocess.run(["git", "-C", "/repo", "worktree", "add", "-q", "--detach", repo, "HEAD"], check=True)
    subprocess.run(["git", "-C", repo, "checkout", "-q", "--", "."])
    subprocess.run(["git", "-C", repo, "checkout", "-q", "--detach", subprocess.check_output(["git", "-C", "/repo", "rev-parse", "HEAD"], text=True).strip()])
    env = dict(os.environ, BPV_REPO=repo, BPV_WORK=os.path.join(D, "work"), BPV_EVID=os.path.join(D, "evidence"))
    os.makedirs(env["BPV_WORK"], exist_ok=True)
    os.makedirs(env["BPV_EVID"], exist_ok=True)
    with open(outfile + ".w%d" % w, "a") as out:
        for f, k, op in cands:
            subprocess.run(["git", "-C", repo, "checkout", "-q", "--", "."])
            old, new = apply(repo, f, k, op)
            if old == new:
                continue
            # cheap compile filter first (cargo check in the scratch copy, shared target dir per worker)
            c = subprocess.run(["cargo", "check", "--offline", "-q", "--lib"], cwd=repo, env=dict(os.environ, CARGO_TARGET_DIR=os.path.join(D, "target"), CARGO_NET_OFFLINE="true", RUSTFLAGS="-Awarnings"), capture_output=True, text=True)
            if c.returncode != 0:
                out.write(json.dumps({"file": f, "line": k + 1, "op": op[0], "old": old.strip()[:160], "new": new.strip()[:160], "compiles": False}) + "\n")
                out.flush()
                continue
            r = subprocess.run(["./bpv", "all"], cwd=ROOT, env=env, capture_output=True, text=True)
            txt = r.stdout
            fired = re.findall(r"^\[(C\d+)\] .* violations=([1-9]\d*)", txt, re.M)
            rules = sorted(set(re.findall(r"rule=(\S+) instance=(\S+)", txt)))[:8]
            rec = {"file": f, "line": k + 1, "op": op[0], "old": old.strip()[:160], "new": new.strip()[:160], "compiles": "extract-failed" not in txt, "fired": [x[0] for x in fired], "rules": rules}
            out.write(json.dumps(rec) + "\n")
            out.flush()
    subprocess.run(["git", "-C", repo, "checkout", "-q", "--", "."])


def main():
    count, seed, outfile = int(sys.argv[1]), int(sys.argv[2]), sys.argv[3]
    K = int(sys.argv[5]) if len(sys.argv) > 5 and sys.argv[4] == "-j" else 8
    os.makedirs(MX, exist_ok=True)
    cands = candidates("/repo")
    rnd = random.Random(seed)
    # balance operators: idswap dominates the raw candidate list
    by = {}
    for c in cands:
        by.setdefault(c[2][0], []).append(c)
    share = {"idswap": 0.45, "stmtswap": 0.1, "argswap": 0.1, "intlit": 0.1, "method": 0.1, "negcond": 0.05, "delstmt": 0.1}
    pick = []
    for kind, lst in by.items():
        rnd.shuffle(lst)
        pick += lst[: int(count * share.get(kind, 0.05))]
    rnd.shuffle(pick)
    print("candidates", {k: len(v) for k, v in by.items()}, "picked", len(pick))
    chunks = [(w, pick[w::K], outfile) for w in range(K)]
    with multiprocessing.Pool(K) as pool:
        pool.map(worker, chunks)
    recs = []
    for w in range(K):
        p = outfile + ".w%d" % w
        if os.path.exists(p):
            recs += [json.loads(l) for l in open(p)]
            os.remove(p)
    with open(outfile, "w") as out:
        for r in recs:
            out.write(json.dumps(r) + "\n")
    comp = [r for r in recs if r.get("compiles")]
    surv = [r for r in comp if not r["fired"]]
    print("mutants", len(recs), "compile", len(comp), "detected", len(comp) - len(surv), "survivors", len(surv))
    for r in surv:
        print("SURVIVOR", r["file"], r["line"], r["op"], "|", r["old"], "=>", r["new"])


if __name__ == "__main__":
    main()

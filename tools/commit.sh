#!/bin/bash
# commit.sh "<message>" : run every quick check on the unchanged tree; commit only if all are silent
cd /verif
if [ -n "$(git -C /repo status --short)" ]; then echo "REFUSED: /repo working tree is dirty"; exit 1; fi
OUT=$(for i in 01 02 03 04 05 06 07 08 09 10 11 12 13 14 15 16 17 18; do ./bpv check C$i 2>&1; done)
BAD=$(echo "$OUT" | grep "^\[C" | grep -v "violations=0")
N=$(echo "$OUT" | grep -c "^\[C")
if [ -n "$BAD" ] || [ "$N" != "18" ]; then echo "REFUSED: checks not silent ($N run)"; echo "$BAD"; exit 1; fi
python3-vt tools/gen_manifest.py > /dev/null
git add -A && git commit -qm "$1" && echo "committed: $1"

#!/bin/bash
# benign_check.sh : every check must stay silent on every behaviour-preserving rewrite in selftest/benign
ROOT=$(cd "$(dirname "$0")/.." && pwd)
MX=${MXDIR:-/tmp/mxb}; mkdir -p $MX
[ -d $MX/repo ] || git -C /repo worktree add -q --detach $MX/repo HEAD
git -C $MX/repo checkout -q -- . ; git -C $MX/repo checkout -q --detach $(git -C /repo rev-parse HEAD)
export BPV_REPO=$MX/repo BPV_WORK=$MX/work BPV_EVID=$MX/evidence
mkdir -p $BPV_WORK $BPV_EVID
RC=0
for P in $ROOT/selftest/benign/*.patch $ROOT/selftest/benign_ext/*.patch; do
  cd $MX/repo && git checkout -q -- . && git apply $P || { echo "$(basename $P) APPLY-FAILED"; RC=1; continue; }
  OUT=$(cd $ROOT && ./bpv all 2>&1)
  BAD=$(echo "$OUT" | grep "^\[C" | grep -v "violations=0" | awk '{print $1}' | tr '\n' ' ')
  if [ -n "$BAD" ]; then RC=1; echo "$(basename $P): FALSE ALARM in $BAD"; echo "$OUT" | grep -A2 "^VIOLATION" | grep -v "^VIOLATION\|^--" | cut -c1-260 | head -8; else echo "$(basename $P): silent"; fi
done
cd $MX/repo && git checkout -q -- .
exit $RC

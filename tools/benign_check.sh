#!/bin/bash
# benign_check.sh [-j K] [patches...] : every check must stay silent on every behaviour-preserving rewrite in
# selftest/benign and selftest/benign_ext (K workers, each with its own scratch copy of /repo; never touches /repo)
ROOT=$(cd "$(dirname "$0")/.." && pwd)
K=6
if [ "$1" = "-j" ]; then K=$2; shift 2; fi
MX=${MXDIR:-/tmp/mxb}; mkdir -p $MX
rm -f $MX/out.*
if [ $# -gt 0 ]; then LIST=("$@"); else LIST=($ROOT/selftest/benign/*.patch $ROOT/selftest/benign_ext/*.patch); fi
worker() {
  local w=$1; shift
  local D=$MX/w$w; mkdir -p $D
  [ -d $D/repo ] || git -C /repo worktree add -q --detach $D/repo HEAD
  git -C $D/repo checkout -q -- . ; git -C $D/repo checkout -q --detach $(git -C /repo rev-parse HEAD)
  export BPV_REPO=$D/repo BPV_WORK=$D/work BPV_EVID=$D/evidence
  mkdir -p $BPV_WORK $BPV_EVID
  local rc=0
  for P in "$@"; do
    cd $D/repo && git checkout -q -- . && git clean -fdq src && git apply $P || { echo "$(basename $P) APPLY-FAILED"; rc=1; continue; }
    OUT=$(cd $ROOT && ./bpv all --tier ${TIER:-quick} 2>&1)
    BAD=$(echo "$OUT" | grep "^\[C" | grep -v "violations=0" | awk '{print $1}' | tr '\n' ' ')
    if [ -n "$BAD" ] && grep -q "^$(basename $P) " $ROOT/selftest/benign_ext/KNOWN_RESIDUAL.txt 2>/dev/null; then echo "$(basename $P): KNOWN-RESIDUAL false alarm in $BAD (documented in DESIGN.md)";
    elif [ -n "$BAD" ]; then rc=1; echo "$(basename $P): FALSE ALARM in $BAD"; echo "$OUT" | grep -A2 "^VIOLATION" | grep -v "^VIOLATION\|^--" | cut -c1-260 | head -8; else echo "$(basename $P): silent"; fi
  done
  cd $D/repo && git checkout -q -- .
  return $rc
}
pids=()
for ((w=0; w<K; w++)); do
  chunk=()
  for ((i=w; i<${#LIST[@]}; i+=K)); do chunk+=("${LIST[$i]}"); done
  [ ${#chunk[@]} -gt 0 ] || continue
  worker $w "${chunk[@]}" > $MX/out.$w 2>&1 &
  pids+=($!)
done
RC=0
for p in "${pids[@]}"; do wait $p || RC=1; done
cat $MX/out.* | sort
exit $RC

#!/bin/bash
# seed_matrix.sh [ids...] : run every check against every seeded change on a scratch copy of /repo
# (never touches /repo); writes seeded/<id>/detect.txt and seeded/MATRIX.md
set -u
ROOT=$(cd "$(dirname "$0")/.." && pwd)
MX=${MXDIR:-/tmp/mx}; mkdir -p $MX
[ -d $MX/repo ] || git -C /repo worktree add -q --detach $MX/repo HEAD
git -C $MX/repo checkout -q -- . ; git -C $MX/repo checkout -q --detach $(git -C /repo rev-parse HEAD)
export BPV_REPO=$MX/repo BPV_WORK=$MX/work BPV_EVID=$MX/evidence
mkdir -p $BPV_WORK $BPV_EVID
IDS="$@"; [ -z "$IDS" ] && IDS=$(ls $ROOT/seeded | grep -E '^C[0-9]+[a-z]')
for id in $IDS; do
  cd $MX/repo && git checkout -q -- . && git clean -fdq src
  P=$ROOT/seeded/$id/patch.diff
  git apply $P 2>/dev/null || patch -p1 --no-backup-if-mismatch -s < $P || { echo "$id APPLY-FAILED" > $ROOT/seeded/$id/detect.txt; continue; }
  OUT=$(cd $ROOT && ./bpv all 2>&1)
  { echo "$OUT" | grep "^\[C" | awk '{print $1, $5}' ; echo "---"; echo "$OUT" | grep -A2 "^VIOLATION" | grep "rule=" | sort | uniq -c | sort -rn | head -40; } > $ROOT/seeded/$id/detect.txt
  echo "$id: $(grep -v 'violations=0' $ROOT/seeded/$id/detect.txt | grep '^\[C' | tr -d '[]' | awk '{print $1}' | tr '\n' ' ')"
done
cd $MX/repo && git checkout -q -- .

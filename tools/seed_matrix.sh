#!/bin/bash
# seed_matrix.sh [-j K] [ids...] : run every check against every seeded change on scratch copies of /repo
# (never touches /repo); writes seeded/<id>/detect.txt; then `tools/gen_matrix.py` renders seeded/MATRIX.md
set -u
ROOT=$(cd "$(dirname "$0")/.." && pwd)
K=6
if [ "${1:-}" = "-j" ]; then K=$2; shift 2; fi
MX=${MXDIR:-/tmp/mx}; mkdir -p $MX
rm -f $MX/mout.*
IDS=("$@"); [ ${#IDS[@]} -eq 0 ] && IDS=($(ls $ROOT/seeded | grep -E '^C[0-9]+[a-z]'))
worker() {
  local w=$1; shift
  local D=$MX/w$w; mkdir -p $D
  [ -d $D/repo ] || git -C /repo worktree add -q --detach $D/repo HEAD
  git -C $D/repo checkout -q -- . ; git -C $D/repo checkout -q --detach $(git -C /repo rev-parse HEAD)
  export BPV_REPO=$D/repo BPV_WORK=$D/work BPV_EVID=$D/evidence
  mkdir -p $BPV_WORK $BPV_EVID
  for id in "$@"; do
    cd $D/repo && git checkout -q -- . && git clean -fdq src
    P=$ROOT/seeded/$id/patch.diff
    git apply $P 2>/dev/null || patch -p1 --no-backup-if-mismatch -s < $P || { echo "$id APPLY-FAILED" > $ROOT/seeded/$id/detect.txt; echo "$id: APPLY-FAILED"; continue; }
    OUT=$(cd $ROOT && ./bpv all --tier ${TIER:-quick} 2>&1)
    { echo "$OUT" | grep "^\[C" | awk '{print $1, $5}' ; echo "---"; echo "$OUT" | grep -A2 "^VIOLATION" | grep "rule=" | sort | uniq -c | sort -rn | head -40; } > $ROOT/seeded/$id/detect.txt
    echo "$id: $(grep -v 'violations=0' $ROOT/seeded/$id/detect.txt | grep '^\[C' | tr -d '[]' | awk '{print $1}' | tr '\n' ' ')"
  done
  cd $D/repo && git checkout -q -- .
}
pids=()
for ((w=0; w<K; w++)); do
  chunk=()
  for ((i=w; i<${#IDS[@]}; i+=K)); do chunk+=("${IDS[$i]}"); done
  [ ${#chunk[@]} -gt 0 ] || continue
  worker $w "${chunk[@]}" > $MX/mout.$w 2>&1 &
  pids+=($!)
done
for p in "${pids[@]}"; do wait $p; done
cat $MX/mout.* | sort

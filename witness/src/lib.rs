//! Compile-fail witnesses (type-checked by rustdoc, never executed) with compiling twins that differ
//! only by the offending line. They support scoping assumptions of the static rules:
//! W1 challenges are unavailable before the randomized phase (C06), W2 no foreign transcript operation can be
//! interleaved and prove/verify consume the system (C06), W3 proof fields are private (C04, C08),
//! W4 the randomizing wrappers cannot be constructed by a user (C16).

/// W1: `challenge_scalar` does not exist on `Prover` (first-phase code cannot obtain a challenge).
/// ```compile_fail,E0599
/// use ark_bulletproofs::r1cs::*;
/// use ark_bulletproofs::PedersenGens;
/// type G = ark_secq256k1::Affine;
/// let pc = PedersenGens::<G>::default();
/// let mut t = merlin::Transcript::new(b"w");
/// let mut p = Prover::new(&pc, &mut t);
/// let _c = p.challenge_scalar(b"early"); // only RandomizedConstraintSystem has it
/// ```
/// twin:
/// ```no_run
/// use ark_bulletproofs::r1cs::*;
/// use ark_bulletproofs::PedersenGens;
/// type G = ark_secq256k1::Affine;
/// let pc = PedersenGens::<G>::default();
/// let mut t = merlin::Transcript::new(b"w");
/// let mut p = Prover::new(&pc, &mut t);
/// p.specify_randomized_constraints(|cs| { let _c = cs.challenge_scalar(b"late"); Ok(()) }).unwrap();
/// ```
pub struct W1;

/// W1v: the same on the verifier.
/// ```compile_fail,E0599
/// use ark_bulletproofs::r1cs::*;
/// type G = ark_secq256k1::Affine;
/// let mut t = merlin::Transcript::new(b"w");
/// let mut v = Verifier::<G, _>::new(&mut t);
/// let _c = v.challenge_scalar(b"early");
/// ```
/// twin:
/// ```no_run
/// use ark_bulletproofs::r1cs::*;
/// type G = ark_secq256k1::Affine;
/// let mut t = merlin::Transcript::new(b"w");
/// let mut v = Verifier::<G, _>::new(&mut t);
/// v.specify_randomized_constraints(|cs| { let _c = cs.challenge_scalar(b"late"); Ok(()) }).unwrap();
/// ```
pub struct W1v;

/// W2a: the caller's transcript is exclusively borrowed while the system is alive.
/// ```compile_fail,E0499
/// use ark_bulletproofs::r1cs::*;
/// use ark_bulletproofs::PedersenGens;
/// type G = ark_secq256k1::Affine;
/// let pc = PedersenGens::<G>::default();
/// let mut t = merlin::Transcript::new(b"w");
/// let mut p = Prover::new(&pc, &mut t);
/// t.append_message(b"foreign", b"data"); // second mutable borrow
/// let _ = p.multipliers_len();
/// ```
/// twin:
/// ```no_run
/// use ark_bulletproofs::r1cs::*;
/// use ark_bulletproofs::PedersenGens;
/// type G = ark_secq256k1::Affine;
/// let pc = PedersenGens::<G>::default();
/// let mut t = merlin::Transcript::new(b"w");
/// let mut p = Prover::new(&pc, &mut t);
/// p.transcript().append_message(b"own", b"data"); // through the system: a USER hole of the schedule
/// let _ = p.multipliers_len();
/// ```
pub struct W2a;

/// W2b: `prove` consumes the prover.
/// ```compile_fail,E0382
/// use ark_bulletproofs::r1cs::*;
/// use ark_bulletproofs::{BulletproofGens, PedersenGens};
/// type G = ark_secq256k1::Affine;
/// let pc = PedersenGens::<G>::default();
/// let bp = BulletproofGens::<G>::new(1, 1);
/// let mut t = merlin::Transcript::new(b"w");
/// let p = Prover::new(&pc, &mut t);
/// let _proof = p.prove(&mut rand::thread_rng(), &bp);
/// let _n = p.multipliers_len(); // use after move
/// ```
/// twin:
/// ```no_run
/// use ark_bulletproofs::r1cs::*;
/// use ark_bulletproofs::{BulletproofGens, PedersenGens};
/// type G = ark_secq256k1::Affine;
/// let pc = PedersenGens::<G>::default();
/// let bp = BulletproofGens::<G>::new(1, 1);
/// let mut t = merlin::Transcript::new(b"w");
/// let p = Prover::new(&pc, &mut t);
/// let _n = p.multipliers_len();
/// let _proof = p.prove(&mut rand::thread_rng(), &bp);
/// ```
pub struct W2b;

/// W2c: `verify` consumes the verifier.
/// ```compile_fail,E0382
/// use ark_bulletproofs::r1cs::*;
/// use ark_bulletproofs::{BulletproofGens, PedersenGens};
/// type G = ark_secq256k1::Affine;
/// fn f(proof: &R1CSProof<G>) {
///     let pc = PedersenGens::<G>::default();
///     let bp = BulletproofGens::<G>::new(1, 1);
///     let mut t = merlin::Transcript::new(b"w");
///     let v = Verifier::<G, _>::new(&mut t);
///     let _ = v.verify(proof, &pc, &bp);
///     let _ = v.multipliers_len();
/// }
/// ```
/// twin:
/// ```no_run
/// use ark_bulletproofs::r1cs::*;
/// use ark_bulletproofs::{BulletproofGens, PedersenGens};
/// type G = ark_secq256k1::Affine;
/// fn f(proof: &R1CSProof<G>) {
///     let pc = PedersenGens::<G>::default();
///     let bp = BulletproofGens::<G>::new(1, 1);
///     let mut t = merlin::Transcript::new(b"w");
///     let v = Verifier::<G, _>::new(&mut t);
///     let _ = v.multipliers_len();
///     let _ = v.verify(proof, &pc, &bp);
/// }
/// ```
pub struct W2c;

/// W3a: proof fields cannot be read outside the crate.
/// ```compile_fail,E0616
/// use ark_bulletproofs::r1cs::*;
/// type G = ark_secq256k1::Affine;
/// fn f(proof: &R1CSProof<G>) { let _ = proof.t_x; }
/// ```
/// twin:
/// ```no_run
/// use ark_bulletproofs::r1cs::*;
/// type G = ark_secq256k1::Affine;
/// fn f(proof: &R1CSProof<G>) { let _ = proof.to_bytes(); }
/// ```
pub struct W3a;

/// W3b: proof fields cannot be written outside the crate (no hand-made proof objects).
/// ```compile_fail,E0616
/// use ark_bulletproofs::r1cs::*;
/// type G = ark_secq256k1::Affine;
/// fn f(proof: &mut R1CSProof<G>, other: &R1CSProof<G>) { proof.A_I1 = other.A_I1; }
/// ```
/// twin:
/// ```no_run
/// use ark_bulletproofs::r1cs::*;
/// type G = ark_secq256k1::Affine;
/// fn f(proof: &mut R1CSProof<G>, other: &R1CSProof<G>) { *proof = other.clone(); }
/// ```
pub struct W3b;

/// W4: the randomizing wrapper cannot be constructed by a user.
/// ```compile_fail,E0432
/// use ark_bulletproofs::r1cs::RandomizingProver; // public type in a private module, not re-exported: unnameable
/// ```
/// twin:
/// ```no_run
/// use ark_bulletproofs::r1cs::Prover;
/// ```
pub struct W4;

// Demonstration of the C12 edge-case defect: BulletproofGens::G(0, m) / H(0, m) with m >= 2 does not
// list "the first 0 generators of the first m parties" (nothing) but one generator of every party after
// the first -- and indexes out of bounds when the capacity is 0.
// Place at tests/demo_agg_n0.rs; `cargo test --offline --test demo_agg_n0`.
use ark_bulletproofs::BulletproofGens;
use std::panic::{catch_unwind, AssertUnwindSafe};
type G = ark_secq256k1::Affine;

#[test]
fn zero_width_view_is_empty() {
    let gens = BulletproofGens::<G>::new(4, 3);
    assert_eq!(gens.G(0, 1).count(), 0);
    assert_eq!(gens.G(0, 3).count(), 0, "G(0,3) must list nothing");
    assert_eq!(gens.H(0, 2).count(), 0, "H(0,2) must list nothing");
}

#[test]
fn zero_width_view_on_zero_capacity_does_not_panic() {
    let gens = BulletproofGens::<G>::new(0, 2);
    let r = catch_unwind(AssertUnwindSafe(|| gens.G(0, 2).count()));
    assert_eq!(r.ok(), Some(0));
}

#[test]
fn regular_views_unchanged() {
    let gens = BulletproofGens::<G>::new(4, 3);
    assert_eq!(gens.G(2, 3).count(), 6);
    assert_eq!(gens.G(4, 1).count(), 4);
    assert_eq!(gens.H(1, 2).count(), 2);
}

// Demonstration of the C08 defect on the pinned tree: a *decodable* proof whose inner-product
// L and R lists differ in length makes verify / batch_verify panic instead of returning Err.
// Place at tests/demo_lr_len.rs; `cargo test --offline --test demo_lr_len`.
use ark_bulletproofs::r1cs::*;
use ark_bulletproofs::{BulletproofGens, PedersenGens};
use ark_ff::UniformRand;
use ark_serialize::{CanonicalDeserialize, CanonicalSerialize};
use merlin::Transcript;
use std::panic::{catch_unwind, AssertUnwindSafe};

type G = ark_secq256k1::Affine;
type F = ark_secq256k1::Fr;

fn gadget<CS: ConstraintSystem<F>>(cs: &mut CS, a: Variable<F>, b: Variable<F>, c: Variable<F>) {
    // two multipliers -> padded size 2 -> one (L,R) round
    let (_, _, o1) = cs.multiply(a.into(), b.into());
    let (_, _, o2) = cs.multiply(o1.into(), b.into());
    cs.constrain(o2 - c);
}

fn honest() -> (Vec<u8>, Vec<G>) {
    let pc = PedersenGens::<G>::default();
    let bp = BulletproofGens::<G>::new(8, 1);
    let mut rng = rand::thread_rng();
    let mut t = Transcript::new(b"demo");
    let mut p = Prover::new(&pc, &mut t);
    let (a, b, c) = (F::from(3u64), F::from(5u64), F::from(75u64));
    let (ca, va) = p.commit(a, F::rand(&mut rng));
    let (cb, vb) = p.commit(b, F::rand(&mut rng));
    let (cc, vc) = p.commit(c, F::rand(&mut rng));
    gadget(&mut p, va, vb, vc);
    let proof = p.prove(&mut rng, &bp).unwrap();
    (proof.to_bytes().unwrap(), vec![ca, cb, cc])
}

fn verify_bytes(bytes: &[u8], comms: &[G]) -> Result<(), R1CSError> {
    let pc = PedersenGens::<G>::default();
    let bp = BulletproofGens::<G>::new(8, 1);
    let proof = R1CSProof::<G>::from_bytes(bytes)?;
    let mut t = Transcript::new(b"demo");
    let mut v = Verifier::new(&mut t);
    let vars: Vec<_> = comms.iter().map(|c| v.commit(*c)).collect();
    gadget(&mut v, vars[0], vars[1], vars[2]);
    v.verify(&proof, &pc, &bp)
}

// layout: 11 points, 3 scalars, [u64 len][L...], [u64 len][R...], a, b
fn split(bytes: &[u8]) -> (usize, usize) {
    let mut pt = Vec::new();
    G::default().serialize_compressed(&mut pt).unwrap();
    let mut sc = Vec::new();
    F::from(0u64).serialize_compressed(&mut sc).unwrap();
    (pt.len(), sc.len())
}

#[test]
fn honest_roundtrip_verifies() {
    let (bytes, comms) = honest();
    assert!(verify_bytes(&bytes, &comms).is_ok());
}

#[test]
fn shorter_r_list_must_not_panic() {
    let (bytes, comms) = honest();
    let (p, s) = split(&bytes);
    let l_off = 11 * p + 3 * s;
    let k = u64::deserialize_compressed(&bytes[l_off..l_off + 8]).unwrap() as usize;
    assert_eq!(k, 1);
    let r_off = l_off + 8 + k * p;
    // drop the single R point: count 1 -> 0
    let mut m = bytes[..r_off].to_vec();
    m.extend_from_slice(&0u64.to_le_bytes());
    m.extend_from_slice(&bytes[r_off + 8 + k * p..]);
    let r = catch_unwind(AssertUnwindSafe(|| verify_bytes(&m, &comms)));
    assert!(matches!(r, Ok(Err(_))), "verify panicked or accepted: {:?}", r.map(|x| x.is_ok()));
}

#[test]
fn longer_r_list_must_not_panic() {
    let (bytes, comms) = honest();
    let (p, s) = split(&bytes);
    let l_off = 11 * p + 3 * s;
    let k = 1usize;
    let r_off = l_off + 8 + k * p;
    let rpt = bytes[r_off + 8..r_off + 8 + p].to_vec();
    let mut m = bytes[..r_off].to_vec();
    m.extend_from_slice(&2u64.to_le_bytes());
    m.extend_from_slice(&rpt);
    m.extend_from_slice(&rpt);
    m.extend_from_slice(&bytes[r_off + 8 + k * p..]);
    let r = catch_unwind(AssertUnwindSafe(|| verify_bytes(&m, &comms)));
    assert!(matches!(r, Ok(Err(_))), "verify panicked or accepted: {:?}", r.map(|x| x.is_ok()));
}
